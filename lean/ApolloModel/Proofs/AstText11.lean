import ApolloModel.Proofs.AstText10
/-
Text level, part 3 completed (3): block strings are read as one token that decodes to the string; every string
literal the serializer writes lexes back; the hypotheses `NumbersLex` / `StringsLex` are discharged.
-/
namespace Apollo.Ast
open Apollo.Lex (State step runD advance Item Kind done)
open Apollo.Strs (escapeTriple isWs indentStr blockForm quotedForm serializeStringValue canBeBlockString splitNl)

def tq : Str := ['"', '"', '"']

/-- a block string whose body does not close it is one StringValue token, whatever follows -/
theorem advance_block (b rest : Str) (h : brun S b = some S) :
    advance (tq ++ b ++ tq ++ rest) = (.tok .stringValue (tq ++ b ++ tq), rest) := by
  have h0 : step .start .eof false [] '"' = .goto .stringLiteralStart .stringValue false := rfl
  have h1 : step .stringLiteralStart .stringValue false ['"'] '"' = .goto .stringLiteralStart2 .stringValue false := rfl
  have h2 : step .stringLiteralStart2 .stringValue false ['"', '"'] '"' = .goto .blockStringLiteral .stringValue false := rfl
  have e : tq ++ b ++ tq ++ rest = '"' :: '"' :: '"' :: (b ++ ('"' :: '"' :: '"' :: rest)) := by simp [tq]
  rw [e]
  unfold advance
  rw [runD, h0]; simp only [List.nil_append]
  rw [runD, h1]; simp only [List.cons_append, List.nil_append]
  rw [runD, h2]; simp only [List.cons_append, List.nil_append]
  rw [runD_brun .stringValue false b S S _ _ rfl h]
  have c1 : ∀ acc, step S .stringValue false acc '"' = .goto Q1 .stringValue false := fun _ => rfl
  have c2 : ∀ acc, step Q1 .stringValue false acc '"' = .goto Q2 .stringValue false := fun _ => rfl
  have c3 : ∀ acc, step Q2 .stringValue false acc '"' = .incl (done .stringValue false) := fun _ => rfl
  rw [runD, c1]; simp only []
  rw [runD, c2]; simp only []
  rw [runD, c3]
  simp [done, Lex.Out.mk, tq]

theorem ws_not_special (c : Char) (h : isWs c = true) : c ≠ '"' ∧ c ≠ '\\' := by
  simp only [isWs, Bool.or_eq_true, beq_iff_eq] at h
  rcases h with h | h <;> subst h <;> decide

theorem brun_ws (w : Str) (h : w.all isWs = true) : brun S w = some S := by
  induction w with
  | nil => rfl
  | cons c r ih =>
    have hc : isWs c = true ∧ r.all isWs = true := by simpa using h
    obtain ⟨h1, h2⟩ := ws_not_special c hc.1
    simp [brun, bstep_other S c rfl h1 h2, ih hc.2]

theorem brun_nl (st : State) (h : isB st = true) : bstep st '\n' = some S :=
  bstep_other st '\n' h (by decide) (by decide)

/-- any line of a block string, printed after a newline and the indentation, does not close it -/
theorem brun_line (I l : Str) (hI : I.all isWs = true) (st : State) (h : isB st = true) :
    ∃ st', brun st ('\n' :: I ++ escapeTriple l) = some st' ∧ isB st' = true := by
  obtain ⟨st', hr, _, _⟩ := brun_escapeTriple l S ⟨rfl, by simp, by simp⟩
  refine ⟨st', ?_, brun_isB _ S st' rfl hr⟩
  simp only [List.cons_append, brun, brun_nl st h, Option.bind_some]
  rw [brun_append, brun_ws I hI]
  simpa using hr

theorem brun_lines (I : Str) (hI : I.all isWs = true) : ∀ (L : List Str) (st : State), isB st = true →
    ∃ st', brun st (L.flatMap fun l => if l.isEmpty then ['\n'] else '\n' :: I ++ escapeTriple l) = some st' ∧
      isB st' = true
  | [], st, h => ⟨st, by simp [brun], h⟩
  | l :: L, st, h => by
    have hl : ∃ st1, brun st (if l.isEmpty then ['\n'] else '\n' :: I ++ escapeTriple l) = some st1 ∧ isB st1 = true := by
      split
      · exact ⟨S, by simp [brun, brun_nl st h], rfl⟩
      · exact brun_line I l hI st h
    obtain ⟨st1, h1, hb1⟩ := hl
    obtain ⟨st2, h2, hb2⟩ := brun_lines I hI L st1 hb1
    exact ⟨st2, by simp only [List.flatMap_cons, brun_append, h1, Option.bind_some, h2], hb2⟩

/-- the text `serialize_block_string` writes is `"""` body `"""` with a body that does not close the string -/
theorem blockForm_shape (p : Str) (n : Nat) (s : Str) (hp : p.all isWs = true) :
    ∃ b, blockForm p n s = tq ++ b ++ tq ∧ brun S b = some S := by
  have hI := Strs.indentStr_ws p hp n
  unfold blockForm
  simp only []
  split
  · -- single line
    rename_i hm
    refine ⟨escapeTriple s, rfl, ?_⟩
    obtain ⟨st', hr, hnil, hlast⟩ := brun_escapeTriple s S ⟨rfl, by simp, by simp⟩
    cases hs : s.getLast? with
    | none =>
      have : s = [] := by simpa using hs
      rw [hr, hnil this]
    | some c =>
      simp only [hs, Bool.not_eq_true', Bool.or_eq_false_iff, beq_eq_false_iff_ne, ne_eq, Option.some.injEq] at hm
      rw [hr, hlast c hs (fun h => hm.1.2 h) (fun h => hm.2 h)]
  · -- several lines: every line, then a newline and the indentation before the closing quotes
    obtain ⟨st', hr, hb⟩ := brun_lines (indentStr p n) hI (splitNl s) S rfl
    refine ⟨((splitNl s).flatMap fun l => if l.isEmpty then ['\n'] else '\n' :: indentStr p n ++ escapeTriple l)
      ++ '\n' :: indentStr p n, by simp [tq], ?_⟩
    rw [brun_append, hr]
    simp only [Option.bind_some, brun, brun_nl st' hb]
    exact brun_ws _ hI

/-- **block strings lex back**: one StringValue token, exactly the printed text, which decodes to the string -/
theorem tokOk_block (p : Str) (n : Nat) (s : Str) (hp : p.all isWs = true) (hcan : canBeBlockString s = true) :
    TokOk (.str s) (blockForm p n s) := by
  obtain ⟨b, hshape, hb⟩ := blockForm_shape p n s hp
  refine ⟨by rw [hshape]; simp [tq, HeadOk, headChar, clsTok, quote_not_ignored], ?_⟩
  intro rest _
  refine ⟨.stringValue, blockForm p n s, ?_, ?_⟩
  · rw [hshape]; exact advance_block b rest hb
  · simp [sigItem, Strs.block_roundtrip p n s hp hcan]

/-- **every string literal the serializer writes lexes back and decodes to the string** (white-space prefix) -/
theorem tokOk_string (p : Option Str) (n : Nat) (d : Bool) (s : Str) (hp : ∀ pre, p = some pre → pre.all isWs = true) :
    TokOk (.str s) (serializeStringValue p n d s) := by
  unfold serializeStringValue
  cases p with
  | none => exact tokOk_quoted s
  | some pre =>
    simp only []
    split
    · next h =>
      simp only [Bool.and_eq_true] at h
      exact tokOk_block pre n s (hp pre rfl) h.2
    · exact tokOk_quoted s

end Apollo.Ast
