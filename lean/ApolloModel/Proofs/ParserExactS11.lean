import ApolloModel.Proofs.ParserExactS10
/-
EXACT SOUNDNESS, part 11 (namespace Apollo.Parse.Exact): acceptance = grammar at state level for variable definitions,
operation definitions and fragment definitions (the two halves are `*_sound` of part 10 and `*_complete` of
ParserExactC12, both for the exact budget).
-/
set_option linter.unusedSimpArgs false
namespace Apollo.Parse.Exact
open Apollo.Rowan hiding Str
open Apollo.Lex hiding Str

/-- a `Cons` result read against a known split of the queue -/
theorem cons_split {s s' : PState} {P : List Ast.Tok → Prop} {cs : List Tok} {q0 : Tok} {rest : List Tok}
    (c : Cons s s' P) (ht : Toks s = cs ++ q0 :: rest) (ht' : Toks s' = q0 :: rest) : ∃ x, TokIs (sig cs) x ∧ P x := by
  obtain ⟨cs', x, a, _, _, d, e⟩ := c
  have hcs : cs' = cs := by
    rw [ht, ht'] at a
    exact (List.append_cancel_right a).symm
  subst hcs
  exact ⟨x, d, e⟩

/-- **`variable_definitions`, acceptance iff grammar** (one run, started on `(`) -/
theorem variableDefinitions_iff (n : Nat) (s s' : PState) (t : Tok) (tl : List Tok) (q0 : Tok) (rest : List Tok) (w : TW s)
    (he : EofEnd s) (hnd0 : ¬ Doomed s) (ht : Toks s = (t :: tl) ++ q0 :: rest) (hk : t.kind = .lParen) (hq : Sigf q0)
    (h : (variableDefinitions n).run s = .ok () s') :
    (¬ Doomed s' ∧ Toks s' = q0 :: rest) ↔ ∃ x, TokIs (sig (t :: tl)) x ∧ LVarDefs (s.recLimit - s.recCur) x := by
  constructor
  · rintro ⟨hnd, ht'⟩
    exact cons_split (variableDefinitions_sound n s s' t _ w he (by rw [ht]; rfl) hk h hnd) ht ht'
  · rintro ⟨x, h1, h2⟩
    have hhead : HeadSig (t :: tl) := by
      intro hd tl' e; injection e with e _; subst e; unfold Sigf; rw [hk]; rfl
    obtain ⟨e, t', _⟩ := cmp_variableDefinitions n s s' () (t :: tl) x q0 rest w h h2 ⟨h1, hhead⟩ ht hq trivial trivial
    exact ⟨fun d => hnd0 (e.doom.mp d), t'⟩

/-- **`operation_definition`, acceptance iff grammar** (one run): with the queue `cs ++ q0 :: rest` (`cs` not starting
    with an ignored token, `q0` significant), the run ended error-free right in front of `q0` exactly when `cs` spells a
    full operation definition or a shorthand `{ Selection+ }` within the exact budget -/
theorem operationDefinition_iff (n : Nat) (s s' : PState) (cs : List Tok) (q0 : Tok) (rest : List Tok) (w : TW s)
    (he : EofEnd s) (hnd0 : ¬ Doomed s) (ht : Toks s = cs ++ q0 :: rest) (hhead : HeadSig cs) (hq : Sigf q0)
    (h : (operationDefinition n).run s = .ok () s') :
    (¬ Doomed s' ∧ Toks s' = q0 :: rest) ↔ ∃ x, TokIs (sig cs) x ∧ LOperation (s.recLimit - s.recCur) x := by
  constructor
  · rintro ⟨hnd, ht'⟩
    exact cons_split (operationDefinition_sound n s s' w he h hnd) ht ht'
  · rintro ⟨x, h1, h2⟩
    obtain ⟨e, t, _⟩ := operationDefinition_complete n s s' () cs x q0 rest w h h2 ⟨h1, hhead⟩ ht hq trivial trivial
    exact ⟨fun d => hnd0 (e.doom.mp d), t⟩

/-- **`fragment_definition`, acceptance iff grammar** (one run, entered on the keyword `fragment` as the document
    dispatch does) -/
theorem fragmentDefinition_iff (n : Nat) (s s' : PState) (t : Tok) (tl : List Tok) (q0 : Tok) (rest : List Tok) (w : TW s)
    (he : EofEnd s) (hnd0 : ¬ Doomed s) (ht : Toks s = (t :: tl) ++ q0 :: rest) (hk : t.kind = .name)
    (hd : t.data = "fragment".toList) (hq : Sigf q0)
    (h : (fragmentDefinition n).run s = .ok () s') :
    (¬ Doomed s' ∧ Toks s' = q0 :: rest) ↔ ∃ x, TokIs (sig (t :: tl)) x ∧ LFragment (s.recLimit - s.recCur) x := by
  constructor
  · rintro ⟨hnd, ht'⟩
    exact cons_split (fragmentDefinition_sound n s s' t _ w he (by rw [ht]; rfl) hk hd h hnd) ht ht'
  · rintro ⟨x, h1, h2⟩
    have hhead : HeadSig (t :: tl) := by
      intro hd' tl' e; injection e with e _; subst e; unfold Sigf; rw [hk]; rfl
    obtain ⟨e, t', _⟩ := fragmentDefinition_complete n s s' () (t :: tl) x q0 rest w h h2 ⟨h1, hhead⟩ ht hq trivial trivial
    exact ⟨fun d => hnd0 (e.doom.mp d), t'⟩

end Apollo.Parse.Exact
