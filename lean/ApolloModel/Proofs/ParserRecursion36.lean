import ApolloModel.Proofs.ParserRecursion35
/-
C04 growth (both limits), part 36: the relational pass `Sim cx` over the grammar (a clone of part 23 for the two-run
judgement): values, types, selections, every definition, the three entry points.
-/
set_option linter.unusedSimpArgs false
set_option linter.unusedVariables false
namespace Apollo.Parse
open Apollo.Rowan hiding Str
open Apollo.Lex hiding Str

variable {cx : LimCtx}

theorem sm_variableNode : Sim cx variableNode := by unfold variableNode; sm_auto
macro_rules | `(tactic| sm_leaf) => `(tactic| exact sm_variableNode)
theorem sm_enumValue : Sim cx enumValue := by unfold enumValue; sm_auto
macro_rules | `(tactic| sm_leaf) => `(tactic| exact sm_enumValue)
theorem sm_namedType : Sim cx namedType := by unfold namedType; sm_auto
macro_rules | `(tactic| sm_leaf) => `(tactic| exact sm_namedType)
theorem sm_alias : Sim cx alias := by unfold alias; sm_auto
macro_rules | `(tactic| sm_leaf) => `(tactic| exact sm_alias)
theorem sm_fragmentName : Sim cx fragmentName := by unfold fragmentName; sm_auto
macro_rules | `(tactic| sm_leaf) => `(tactic| exact sm_fragmentName)
theorem sm_typeCondition : Sim cx typeCondition := by unfold typeCondition; sm_auto
macro_rules | `(tactic| sm_leaf) => `(tactic| exact sm_typeCondition)

/-! ### value.rs -/

structure SAll (cx : LimCtx) (n : Nat) : Prop where
  value : ∀ c p, Sim cx (value n c p)
  list : ∀ c, Sim cx (listValue n c)
  obj : ∀ c, Sim cx (objectValue n c)
  field : ∀ c, Sim cx (objectField n c)

theorem sm_valueErr (p : Bool) : Sim cx (valueErr p) := by unfold valueErr; sm_auto
theorem sm_nameValueBranch (o : Option Tok) : Sim cx (nameValueBranch o) := by
  cases o with
  | none => exact sm_pure _
  | some t => unfold nameValueBranch; sm_auto
theorem sm_variableBranch (c p : Bool) : Sim cx (variableBranch c p) := by
  have := sm_valueErr (cx := cx) p
  unfold variableBranch; sm_auto

theorem sm_listLoopBody (n : Nat) (c : Bool) (iv : ∀ c p, Sim cx (value n c p)) (k : Kind) : Sim cx (listLoopBody n c k) := by
  unfold listLoopBody; sm_auto

theorem sm_objectFieldTail (n : Nat) (c : Bool) (iv : ∀ c p, Sim cx (value n c p)) (k : Option Kind) : Sim cx (objectFieldTail n c k) := by
  unfold objectFieldTail; sm_auto

theorem sAll : ∀ n, SAll cx n
  | 0 => ⟨fun _ _ => by simp only [value]; exact sm_outOfFuel, fun _ => by simp only [listValue]; exact sm_outOfFuel,
      fun _ => by simp only [objectValue]; exact sm_outOfFuel, fun _ => by simp only [objectField]; exact sm_outOfFuel⟩
  | n + 1 => by
    obtain ⟨iv, il, io, ifd⟩ := sAll n
    refine ⟨?_, ?_, ?_, ?_⟩
    · intro c p
      rw [value_succ]
      refine sm_bind _ _ sm_peek ?_
      intro k
      cases k with
      | none => exact sm_valueErr p
      | some k =>
        cases k <;> first
          | exact sm_valueErr p
          | exact sm_variableBranch c p
          | exact sm_withNode' _ _ (sm_bump _)
          | exact sm_bind _ _ (sm_peekToken) sm_nameValueBranch
          | exact il c
          | exact io c
    · intro c
      rw [listValue_succ]
      exact sm_withNode' _ _ (sm_bind _ _ (sm_bump _) (fun _ => sm_peekWhile _ (sm_listLoopBody n c iv)))
    · intro c
      rw [objectValue_succ]
      exact sm_withNode' _ _ (sm_bind _ _ (sm_bump _) (fun _ => sm_bind _ _ (sm_peekWhileKind _ _ (ifd c)) (fun _ => sm_expect _ _)))
    · intro c
      rw [objectField_succ]
      exact sm_withNode' _ _ (sm_bind _ _ sm_name (fun _ => sm_bind _ _ sm_peek (sm_objectFieldTail n c iv)))

theorem sm_value (n : Nat) (c p : Bool) : Sim cx (value n c p) := (sAll n).value c p
macro_rules | `(tactic| sm_leaf) => `(tactic| exact sm_value _ _ _)

theorem sm_argument (n : Nat) (c : Bool) : Sim cx (argument n c) := by rw [argument_eq]; unfold argumentTail; sm_auto
macro_rules | `(tactic| sm_leaf) => `(tactic| exact sm_argument _ _)
theorem sm_arguments (n : Nat) (c : Bool) : Sim cx (arguments n c) := by rw [arguments_eq]; unfold argumentsFirst argumentsRest; sm_auto
macro_rules | `(tactic| sm_leaf) => `(tactic| exact sm_arguments _ _)
theorem sm_directive (n : Nat) (c : Bool) : Sim cx (directive n c) := by rw [directive_eq]; unfold directiveTail; sm_auto
macro_rules | `(tactic| sm_leaf) => `(tactic| exact sm_directive _ _)
theorem sm_directives (n : Nat) (c : Bool) : Sim cx (directives n c) := by unfold directives; sm_auto
macro_rules | `(tactic| sm_leaf) => `(tactic| exact sm_directives _ _)
theorem sm_fragmentSpread (n : Nat) : Sim cx (fragmentSpread n) := by unfold fragmentSpread; sm_auto
macro_rules | `(tactic| sm_leaf) => `(tactic| exact sm_fragmentSpread _)

/-! ### ty.rs -/

theorem sm_tyCond (r : TyRes) : Sim cx (tyCond r) := by
  cases r <;> (unfold tyCond; sm_auto)

theorem sm_tyListBody (n : Nat) (ih : Sim cx (tyParse n)) : Sim cx (tyListBody n) := by
  unfold tyListBody
  refine sm_bind _ _ (sm_bump _) (fun _ => sm_bind _ _
    (sm_withRec _ _ (sm_bind _ _ sm_limitErr (fun _ => sm_pure _)) (sm_bind _ _ ih (fun _ => sm_pure _))) ?_)
  intro inner
  have jp : Sim cx (expect .rBracket "R_BRACK" >>= fun _ => (pure TyRes.ok : PI TyRes)) :=
    sm_bind _ _ (sm_expect _ _) (fun _ => sm_pure _)
  cases inner with
  | none => exact sm_pure _
  | some res =>
    cases res with
    | errTok t => exact sm_bind _ _ (sm_errAtToken t) (fun _ => jp)
    | ok => exact jp
    | early => exact jp
    | errNone => exact jp

theorem sm_tyBody (n : Nat) (ih : Sim cx (tyParse n)) : Sim cx (tyBody n) := by
  unfold tyBody
  refine sm_bind _ _ sm_peek ?_
  intro k
  cases k with
  | none => exact sm_pure _
  | some k =>
    cases k <;> first
      | exact sm_withNode' _ _ (sm_tyListBody n ih)
      | exact sm_withNode' _ _ (sm_withNode' _ _ (sm_bind _ _ (sm_eat _) (fun _ => sm_pure _)))
      | (refine sm_bind _ _ (sm_popDrop) ?_
         intro o
         cases o <;> exact sm_pure _)

theorem sm_tyParse : ∀ n, Sim cx (tyParse n)
  | 0 => by unfold tyParse; exact sm_outOfFuel
  | n + 1 => by
    have ih := sm_tyParse n
    rw [tyParse_succ]
    refine sm_bind _ _ (sm_wrapIf _ _ _ _ (sm_tyBody n ih) sm_tyCond (sm_eat _)) (fun r => ?_)
    cases r with
    | ok => exact sm_bind _ _ sm_skipIgnored (fun _ => sm_pure _)
    | early => exact sm_bind (pure ()) _ (sm_pure ()) (fun _ => sm_pure _)
    | errTok t => exact sm_bind (pure ()) _ (sm_pure ()) (fun _ => sm_pure _)
    | errNone => exact sm_bind (pure ()) _ (sm_pure ()) (fun _ => sm_pure _)

theorem sm_ty (n : Nat) : Sim cx (ty n) := by
  have := sm_tyParse (cx := cx) n
  unfold ty
  sm_auto
macro_rules | `(tactic| sm_leaf) => `(tactic| exact sm_ty _)

/-! ### selection.rs -/

structure SSel (cx : LimCtx) (n : Nat) : Prop where
  selSet : Sim cx (selectionSet n)
  sel : Sim cx (selection n)
  field : Sim cx (field n)
  inline : Sim cx (inlineFragment n)

theorem sSel : ∀ n, SSel cx n
  | 0 => ⟨by unfold selectionSet; exact sm_outOfFuel, by unfold selection; exact sm_outOfFuel,
          by unfold field; exact sm_outOfFuel, by unfold inlineFragment; exact sm_outOfFuel⟩
  | n + 1 => by
    obtain ⟨i1, i2, i3, i4⟩ := sSel n
    refine ⟨?_, ?_, ?_, ?_⟩
    · rw [selectionSet_succ]; unfold selSetBody; sm_auto
    · rw [selection_succ]; unfold selBody; sm_auto
    · rw [field_succ]; unfold fieldBody; sm_auto
    · rw [inlineFragment_succ]; unfold inlineBody; sm_auto

theorem sm_selectionSet (n : Nat) : Sim cx (selectionSet n) := (sSel n).selSet
macro_rules | `(tactic| sm_leaf) => `(tactic| exact sm_selectionSet _)
theorem sm_selection (n : Nat) : Sim cx (selection n) := (sSel n).sel
macro_rules | `(tactic| sm_leaf) => `(tactic| exact sm_selection _)

theorem sm_fieldSet (n : Nat) : Sim cx (fieldSet n) := by unfold fieldSet; sm_auto
theorem sm_expectEndOfInput : Sim cx expectEndOfInput := by unfold expectEndOfInput errUnlessEnd; sm_auto

/-! ### definitions, `document()` -/

theorem sm_description : Sim cx description := by unfold description; sm_auto
macro_rules | `(tactic| sm_leaf) => `(tactic| exact sm_description)

theorem sm_operationType : Sim cx operationType := by unfold operationType; sm_auto
macro_rules | `(tactic| sm_leaf) => `(tactic| exact sm_operationType)

theorem sm_defaultValue (n : Nat) : Sim cx (defaultValue n) := by unfold defaultValue; sm_auto
macro_rules | `(tactic| sm_leaf) => `(tactic| exact sm_defaultValue _)

theorem sm_inputValueDefinition (n : Nat) : Sim cx (inputValueDefinition n) := by unfold inputValueDefinition; sm_auto
macro_rules | `(tactic| sm_leaf) => `(tactic| exact sm_inputValueDefinition _)

theorem sm_variableDefinition (n : Nat) : Sim cx (variableDefinition n) := by unfold variableDefinition; sm_auto
macro_rules | `(tactic| sm_leaf) => `(tactic| exact sm_variableDefinition _)

theorem sm_variableDefinitions (n : Nat) : Sim cx (variableDefinitions n) := by unfold variableDefinitions; sm_auto
macro_rules | `(tactic| sm_leaf) => `(tactic| exact sm_variableDefinitions _)

theorem sm_argumentsDefinitionBody (n : Nat) : Sim cx (argumentsDefinitionBody n) := by unfold argumentsDefinitionBody isNameOrString; sm_auto
macro_rules | `(tactic| sm_leaf) => `(tactic| exact sm_argumentsDefinitionBody _)

theorem sm_argumentsDefinition (n : Nat) : Sim cx (argumentsDefinition n) := by unfold argumentsDefinition; sm_auto
macro_rules | `(tactic| sm_leaf) => `(tactic| exact sm_argumentsDefinition _)

theorem sm_fragmentDefinition (n : Nat) : Sim cx (fragmentDefinition n) := by unfold fragmentDefinition; sm_auto
macro_rules | `(tactic| sm_leaf) => `(tactic| exact sm_fragmentDefinition _)

theorem sm_operationDefinition (n : Nat) : Sim cx (operationDefinition n) := by unfold operationDefinition; sm_auto
macro_rules | `(tactic| sm_leaf) => `(tactic| exact sm_operationDefinition _)

theorem sm_fieldDefinition (n : Nat) : Sim cx (fieldDefinition n) := by unfold fieldDefinition; sm_auto
macro_rules | `(tactic| sm_leaf) => `(tactic| exact sm_fieldDefinition _)

theorem sm_fieldsDefinition (n : Nat) : Sim cx (fieldsDefinition n) := by unfold fieldsDefinition isNameOrString; sm_auto
macro_rules | `(tactic| sm_leaf) => `(tactic| exact sm_fieldsDefinition _)

theorem sm_rootOperationTypeDefinition : Sim cx rootOperationTypeDefinition := by unfold rootOperationTypeDefinition; sm_auto
macro_rules | `(tactic| sm_leaf) => `(tactic| exact sm_rootOperationTypeDefinition)

theorem sm_schemaDefinition (n : Nat) : Sim cx (schemaDefinition n) := by unfold schemaDefinition; sm_auto
macro_rules | `(tactic| sm_leaf) => `(tactic| exact sm_schemaDefinition _)

theorem sm_schemaExtension (n : Nat) : Sim cx (schemaExtension n) := by unfold schemaExtension; sm_auto
macro_rules | `(tactic| sm_leaf) => `(tactic| exact sm_schemaExtension _)

theorem sm_nameOrErr : Sim cx nameOrErr := by unfold nameOrErr; sm_auto
macro_rules | `(tactic| sm_leaf) => `(tactic| exact sm_nameOrErr)

theorem sm_scalarTypeDefinition (n : Nat) : Sim cx (scalarTypeDefinition n) := by unfold scalarTypeDefinition; sm_auto
macro_rules | `(tactic| sm_leaf) => `(tactic| exact sm_scalarTypeDefinition _)

theorem sm_scalarTypeExtension (n : Nat) : Sim cx (scalarTypeExtension n) := by unfold scalarTypeExtension; sm_auto
macro_rules | `(tactic| sm_leaf) => `(tactic| exact sm_scalarTypeExtension _)

theorem sm_implementsInterfaces : Sim cx implementsInterfaces := by unfold implementsInterfaces; sm_auto
macro_rules | `(tactic| sm_leaf) => `(tactic| exact sm_implementsInterfaces)

theorem sm_objectTypeDefinition (n : Nat) : Sim cx (objectTypeDefinition n) := by unfold objectTypeDefinition; sm_auto
macro_rules | `(tactic| sm_leaf) => `(tactic| exact sm_objectTypeDefinition _)

theorem sm_objectTypeExtension (n : Nat) : Sim cx (objectTypeExtension n) := by unfold objectTypeExtension; sm_auto
macro_rules | `(tactic| sm_leaf) => `(tactic| exact sm_objectTypeExtension _)

theorem sm_interfaceTypeDefinition (n : Nat) : Sim cx (interfaceTypeDefinition n) := by unfold interfaceTypeDefinition; sm_auto
macro_rules | `(tactic| sm_leaf) => `(tactic| exact sm_interfaceTypeDefinition _)

theorem sm_interfaceTypeExtension (n : Nat) : Sim cx (interfaceTypeExtension n) := by unfold interfaceTypeExtension; sm_auto
macro_rules | `(tactic| sm_leaf) => `(tactic| exact sm_interfaceTypeExtension _)

theorem sm_unionMemberTypes : Sim cx unionMemberTypes := by unfold unionMemberTypes; sm_auto
macro_rules | `(tactic| sm_leaf) => `(tactic| exact sm_unionMemberTypes)

theorem sm_unionTypeDefinition (n : Nat) : Sim cx (unionTypeDefinition n) := by unfold unionTypeDefinition; sm_auto
macro_rules | `(tactic| sm_leaf) => `(tactic| exact sm_unionTypeDefinition _)

theorem sm_unionTypeExtension (n : Nat) : Sim cx (unionTypeExtension n) := by unfold unionTypeExtension; sm_auto
macro_rules | `(tactic| sm_leaf) => `(tactic| exact sm_unionTypeExtension _)

theorem sm_enumValueDefinition (n : Nat) : Sim cx (enumValueDefinition n) := by unfold enumValueDefinition isNameOrString; sm_auto
macro_rules | `(tactic| sm_leaf) => `(tactic| exact sm_enumValueDefinition _)

theorem sm_enumValuesDefinition (n : Nat) : Sim cx (enumValuesDefinition n) := by unfold enumValuesDefinition isNameOrString; sm_auto
macro_rules | `(tactic| sm_leaf) => `(tactic| exact sm_enumValuesDefinition _)

theorem sm_enumTypeDefinition (n : Nat) : Sim cx (enumTypeDefinition n) := by unfold enumTypeDefinition; sm_auto
macro_rules | `(tactic| sm_leaf) => `(tactic| exact sm_enumTypeDefinition _)

theorem sm_enumTypeExtension (n : Nat) : Sim cx (enumTypeExtension n) := by unfold enumTypeExtension; sm_auto
macro_rules | `(tactic| sm_leaf) => `(tactic| exact sm_enumTypeExtension _)

theorem sm_inputFieldsDefinition (n : Nat) : Sim cx (inputFieldsDefinition n) := by unfold inputFieldsDefinition isNameOrString; sm_auto
macro_rules | `(tactic| sm_leaf) => `(tactic| exact sm_inputFieldsDefinition _)

theorem sm_inputObjectTypeDefinition (n : Nat) : Sim cx (inputObjectTypeDefinition n) := by unfold inputObjectTypeDefinition; sm_auto
macro_rules | `(tactic| sm_leaf) => `(tactic| exact sm_inputObjectTypeDefinition _)

theorem sm_inputObjectTypeExtension (n : Nat) : Sim cx (inputObjectTypeExtension n) := by unfold inputObjectTypeExtension; sm_auto
macro_rules | `(tactic| sm_leaf) => `(tactic| exact sm_inputObjectTypeExtension _)

theorem sm_directiveLocation : Sim cx directiveLocation := by unfold directiveLocation; sm_auto
macro_rules | `(tactic| sm_leaf) => `(tactic| exact sm_directiveLocation)

theorem sm_directiveLocations : Sim cx directiveLocations := by unfold directiveLocations; sm_auto
macro_rules | `(tactic| sm_leaf) => `(tactic| exact sm_directiveLocations)

theorem sm_directiveDefinitionTail : Sim cx directiveDefinitionTail := by unfold directiveDefinitionTail; sm_auto

theorem sm_directiveDefinition (n : Nat) : Sim cx (directiveDefinition n) := by
  have := sm_directiveDefinitionTail (cx := cx)
  rw [directiveDefinition_split]; sm_auto
macro_rules | `(tactic| sm_leaf) => `(tactic| exact sm_directiveDefinition _)

theorem sm_extensions (n : Nat) : Sim cx (extensions n) := by unfold extensions; sm_auto
macro_rules | `(tactic| sm_leaf) => `(tactic| exact sm_extensions _)

theorem sm_selectDefinition (n : Nat) (d : Str) : Sim cx (selectDefinition n d) := by unfold selectDefinition; sm_auto
macro_rules | `(tactic| sm_leaf) => `(tactic| exact sm_selectDefinition _ _)

theorem sm_documentDispatch (n : Nat) (k : Kind) : Sim cx (documentDispatch n k) := by unfold documentDispatch; sm_auto
macro_rules | `(tactic| sm_leaf) => `(tactic| exact sm_documentDispatch _ _)

theorem sm_documentStep (n : Nat) (k : Kind) : Sim cx (documentStep n k) := by unfold documentStep; sm_auto
macro_rules | `(tactic| sm_leaf) => `(tactic| exact sm_documentStep _ _)


theorem sm_documentBody (n : Nat) : Sim cx (documentBody n) := by unfold documentBody errIfEmpty; sm_auto

theorem sm_document (n : Nat) : Sim cx (document n) := by unfold document; exact sm_withNode' _ _ (sm_documentBody n)

theorem sm_entry (e : Entry) (n : Nat) : Sim cx (e.grammar n) := by
  cases e with
  | document => exact sm_document n
  | selectionSet => exact sm_bind _ _ (sm_fieldSet n) (fun _ => sm_expectEndOfInput)
  | type => exact sm_bind _ _ (sm_ty n) (fun _ => sm_expectEndOfInput)

end Apollo.Parse
