import ApolloModel.Proofs.ParserExactS14
import ApolloModel.Proofs.ParserExactT5
/-
EXACT SOUNDNESS, part 15 (namespace Apollo.Parse.Exact): building blocks for the fields of `DefExact` — `Directives? Body?`
(`dirsBody`) with the budget and with the follow fact "the next token is not the body opener when the body is absent"
(`HeadNot`), `defShape` with a tail whose result mentions the final state, the head of a dispatcher queue is significant.
No field of `DefExact` is discharged here (open: `kwPart word seen` with `seen = true` has to come from `DStart`).
-/
set_option linter.unusedSimpArgs false
namespace Apollo.Parse.Exact
open Apollo.Rowan hiding Str
open Apollo.Lex hiding Str

/-- the next token of the queue is not of kind `k0` -/
def HeadNot (k0 : Kind) (s : PState) : Prop := ∀ t, (Toks s).head? = some t → t.kind ≠ k0

theorem HeadNot.toks {k0 : Kind} {s s' : PState} (h : HeadNot k0 s) (ht : Toks s' = Toks s) : HeadNot k0 s' := by
  intro t hh; rw [ht] at hh; exact h t hh

/-- `if peek == k0 { body }` with a budgeted body; when the body is absent the next token is not `k0` -/
theorem optBodyK_sound (k0 : Kind) (body : PI Unit) (L : Nat → List Ast.Tok → Prop)
    (hb : ∀ s s' t rest, TW s → EofEnd s → Toks s = t :: rest → t.kind = k0 → body.run s = .ok () s' → ¬ Doomed s' → Cons s s' (L (bud s)))
    (s s' : PState) (w : TW s) (he : EofEnd s) (h : (optBodyK k0 body).run s = .ok () s') (hnd : ¬ Doomed s') :
    Cons s s' (fun x => L (bud s) x ∨ (x = [] ∧ HeadNot k0 s')) := by
  unfold optBodyK at h
  obtain ⟨sP, o, p, hor⟩ := ifPeek_dec k0 _ _ s s' () w h
  have heP := p.eofEnd he
  rcases hor with ⟨hk, h2⟩ | ⟨hk, h2⟩
  · obtain ⟨t, rfl, hkt⟩ : ∃ t, o = some t ∧ t.kind = k0 := by
      cases o with
      | none => simp at hk
      | some t => exact ⟨t, rfl, by simpa using hk⟩
    have c := hb sP s' t _ p.w heP p.head_cons hkt h2 hnd
    exact (c.transport p.toks.symm rfl c.eofEnd).weaken (fun x hx => Or.inl (by rw [bud_peek p] at hx; exact hx))
  · rw [run_pure] at h2
    injection h2 with _ h2
    subst h2
    refine (Cons.nil p.toks heP).weaken ?_
    rintro x rfl
    refine Or.inr ⟨rfl, ?_⟩
    intro t ht hkt
    apply hk
    have ho : o = some t := by rw [p.head, ← p.toks]; exact ht
    rw [ho]; simp [hkt]

theorem good_optBodyKH (k0 : Kind) (body : PI Unit) (gb : Good body) : Good (optBodyK k0 body) :=
  good_ifPeek k0 body gb

/-- `Directives? Body?` (`dirsBody`): constant directives within the budget, the body budgeted -/
theorem dirsBody_soundH (n : Nat) (k0 : Kind) (body : PI Unit) (L : Nat → List Ast.Tok → Prop) (gb : Good body)
    (hb : ∀ s s' t rest, TW s → EofEnd s → Toks s = t :: rest → t.kind = k0 → body.run s = .ok () s' → ¬ Doomed s' → Cons s s' (L (bud s)))
    (s s' : PState) (w : TW s) (he : EofEnd s) (h : (dirsBody n k0 body).run s = .ok () s') (hnd : ¬ Doomed s') :
    Cons s s' (fun x => ∃ ds x2, x = Ast.tDirectives ds ++ x2 ∧ dirsFit true (bud s) ds ∧ (L (bud s) x2 ∨ (x2 = [] ∧ HeadNot k0 s'))) := by
  unfold dirsBody optKind at h
  obtain ⟨s1, h1, h2⟩ := optThen_dec .at (directives n true) (optBodyK k0 body) s s' h
  have a1 := good_opt .at _ (good_directives n true) s () s1 w h1
  have hnd1 : ¬ Doomed s1 := fun d => hnd ((good_optBodyKH k0 body gb s1 () s' a1.w h2).doom d)
  have c1 := optDirsEnd_sound n s s1 w he (by unfold optDirsEnd; exact h1) hnd1
  have c2 := optBodyK_sound k0 body L hb s1 s' a1.w c1.eofEnd h2 hnd
  refine (c1.seq c2).weaken ?_
  rintro z ⟨x, y, rfl, ⟨ds, rfl, hds⟩, hy⟩
  rw [bud_adv a1] at hy
  exact ⟨ds, y, rfl, hds, hy⟩

theorem good_dirsBodyK (n : Nat) (k0 : Kind) (body : PI Unit) (gb : Good body) : Good (dirsBody n k0 body) :=
  good_bind _ _ good_peek (fun _ => good_ite _ _ _ (good_bind _ _ (good_directives n true) (fun _ => good_optBodyKH k0 body gb)) (good_optBodyKH k0 body gb))

/-- `defShape` with a tail whose result may mention the final state -/
theorem defShape_soundLF (word : String) (sk : SK) (hw : KwWord word) (n : Nat) (tail : PI Unit) (L : Nat → PState → List Ast.Tok → Prop)
    (gt : Good tail)
    (ht : ∀ s s', TW s → EofEnd s → LexQ (Toks s) → tail.run s = .ok () s' → ¬ Doomed s' → Cons s s' (L (bud s) s'))
    (s s' : PState) (w : TW s) (he : EofEnd s) (hq : LexQ (Toks s)) (h : (defShape word sk n tail).run s = .ok () s') (hnd : ¬ Doomed s') :
    Cons s s' (fun x => ∃ desc seen nm x2, x = Ast.tDescription desc ++ kwPart word seen ++ .name nm :: x2 ∧ L (bud s) s' x2) := by
  obtain ⟨s1, h1, h2⟩ := defShape_split word sk n tail s s' h
  have hacc := accL_defShape word hw sk n (pure ()) (fun x => x = [])
    ((acc_pure E0 LexQ ()).mono (fun _ h => h) (fun _ _ h => h.2))
  have a1 := hacc.1 s () s1 w h1
  have hnd1 : ¬ Doomed s1 := fun d => hnd ((gt s1 () s' a1.w h2).doom d)
  have c1 := cons_of_acc hacc s s1 () w he hq h1 hnd1
  have hq1 : LexQ (Toks s1) := by
    obtain ⟨cs, _, a, _⟩ := c1
    rw [a] at hq; exact hq.suffix
  have c2 := ht s1 s' a1.w c1.eofEnd hq1 h2 hnd
  refine (c1.seq c2).weaken ?_
  rintro z ⟨x, y, rfl, ⟨desc, seen, nm, x2, rfl, rfl⟩, hy⟩
  rw [bud_adv a1] at hy
  exact ⟨desc, seen, nm, y, by simp, hy⟩

/-- the head of a queue on which the dispatcher starts a definition is a significant token -/
theorem dstart_head {w : Str} {q : List Tok} (c : Char) (r : Str) (hw : w = c :: r) (hc : isNameStart c = true)
    (h : LexQ q ∧ DStart w q) : ∃ t rest, q = t :: rest ∧ isIgnoredKind t.kind = false := by
  obtain ⟨hl, t, rest, hq, hs⟩ := h
  refine ⟨t, rest, hq, ?_⟩
  rcases hs with ⟨_, hd⟩ | ⟨hk, _⟩
  · have := hl t (by rw [hq]; exact List.mem_cons_self ..) c r (by rw [hd, hw]) hc
    rw [this]; rfl
  · rw [hk]; rfl

/-! ### union -/

theorem good_unionMemberTypes : Good unionMemberTypes := (acc_unionMemberTypes (E := E0) early_false).1

end Apollo.Parse.Exact
