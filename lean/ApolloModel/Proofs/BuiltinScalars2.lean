import ApolloModel.Proofs.BuiltinScalars
namespace Apollo.Scalars

/-- a faithful iteration order: some rearrangement of the set's elements -/
def IsOrder (order : List Name → List Name) : Prop := ∀ l, (order l).Perm l

theorem IsOrder.mem {order : List Name → List Name} (ho : IsOrder order) (l : List Name) (x : Name) :
    x ∈ order l ↔ x ∈ l := (ho l).mem_iff

theorem IsOrder.nil {order : List Name → List Name} (ho : IsOrder order) : order [] = [] :=
  List.perm_nil.mp (ho [])

theorem IsOrder.single {order : List Name → List Name} (ho : IsOrder order) (b : Name) : order [b] = [b] :=
  List.perm_singleton.mp (ho [b])

theorem keep_after (order : List Name → List Name) (ho : IsOrder order) (s : Schema) (wf : WellFormed s)
    (e : Name × TypeDef) (he : e ∈ (bookkeeping order s).types) : keep (bookkeeping order s) e = true := by
  have hrefs := allRefs_bookkeeping order s wf
  unfold keep
  by_cases hb : e.2.isBuiltIn = true ∧ builtinScalars.contains e.1 = true
  · -- a built-in scalar definition: it must be used and defined after the pass
    have hmem : e.1 ∈ builtinScalars := by simpa using hb.2
    have hdef : (bookkeeping order s).defined e.1 = true := (defined_iff _ _).mpr ⟨e, he, rfl⟩
    have href : s.allRefs.contains e.1 = true := by
      unfold bookkeeping at he
      simp only [List.mem_append, List.mem_map] at he
      rcases he with he | ⟨n, hn, rfl⟩
      · by_cases hall : allUsed s = true
        · exact allUsed_referenced s hall e.1 hmem
        · simp only [hall, Bool.false_eq_true, if_false, List.mem_filter] at he
          have hk := he.2
          unfold keep at hk
          simp only [hb.1, hb.2, Bool.not_true, Bool.false_or] at hk
          exact ((mem_usedAndDefined s e.1).mp (by simpa using hk)).2.1
      · exact ((mem_usedAndUndefined s n).mp ((ho.mem _ _).mp hn)).2.1
    have : e.1 ∈ usedAndDefined (bookkeeping order s) :=
      (mem_usedAndDefined _ _).mpr ⟨hmem, by rw [hrefs]; exact href, hdef⟩
    simp [this]
  · simp only [not_and, Bool.not_eq_true] at hb
    by_cases h1 : e.2.isBuiltIn = true
    · have : e.1 ∉ builtinScalars := by simpa using hb h1
      simp [this]
    · simp [h1]

theorem usedAndUndefined_after (order : List Name → List Name) (ho : IsOrder order) (s : Schema) (wf : WellFormed s) :
    usedAndUndefined (bookkeeping order s) = [] := by
  have hrefs := allRefs_bookkeeping order s wf
  unfold usedAndUndefined
  rw [List.filter_eq_nil_iff]
  intro b hb
  simp only [Bool.and_eq_true, Bool.not_eq_true', not_and, Bool.not_eq_false]
  intro hr
  rw [hrefs] at hr
  exact referenced_defined_after order (fun l x hx => (ho.mem l x).mpr hx) s b hb hr

/-- a schema with nothing to restore and nothing to prune is left as it is -/
theorem bookkeeping_of_clean (order : List Name → List Name) (ho : IsOrder order) (t : Schema)
    (h2 : usedAndUndefined t = []) (h3 : ∀ e ∈ t.types, keep t e = true) : bookkeeping order t = t := by
  unfold bookkeeping
  simp only [h2, ho.nil, List.map_nil, List.append_nil]
  have : (if allUsed t = true then t.types else t.types.filter (keep t)) = t.types := by
    split
    · rfl
    · exact List.filter_eq_self.mpr h3
  rw [this]

/-- **C16** — re-validating a validated schema leaves the type map identical, including which
    built-in scalars are present (for every iteration order of the hash set). -/
theorem revalidate_fixpoint (order : List Name → List Name) (ho : IsOrder order) (s : Schema) (wf : WellFormed s) :
    bookkeeping order (bookkeeping order s) = bookkeeping order s :=
  bookkeeping_of_clean order ho _ (usedAndUndefined_after order ho s wf) (keep_after order ho s wf)

/-- a fixpoint has nothing to restore and nothing to prune -/
theorem fixpoint_facts (order : List Name → List Name) (ho : IsOrder order) (s : Schema)
    (hfix : bookkeeping order s = s) :
    usedAndUndefined s = [] ∧ ∀ e ∈ s.types, allUsed s = true ∨ keep s e = true := by
  have htypes : (bookkeeping order s).types = s.types := by rw [hfix]
  unfold bookkeeping at htypes
  simp only [] at htypes
  -- nothing can have been inserted: an inserted name would be both undefined and present
  have hu : usedAndUndefined s = [] := by
    cases hl : usedAndUndefined s with
    | nil => rfl
    | cons x xs =>
      exfalso
      have hx : x ∈ order (usedAndUndefined s) := (ho.mem _ _).mpr (by simp [hl])
      have hin : (x, builtinDef) ∈ s.types := by
        rw [← htypes]
        simp only [List.mem_append, List.mem_map]
        exact Or.inr ⟨x, hx, rfl⟩
      have hd : s.defined x = true := (defined_iff s x).mpr ⟨_, hin, rfl⟩
      have hx' : x ∈ usedAndUndefined s := by simp [hl]
      have := ((mem_usedAndUndefined s x).mp hx').2.2
      rw [hd] at this
      exact absurd this (by simp)
  refine ⟨hu, ?_⟩
  intro e he
  by_cases hall : allUsed s = true
  · exact Or.inl hall
  · right
    simp only [hu, ho.nil, List.map_nil, List.append_nil, hall, Bool.false_eq_true, if_false] at htypes
    exact (List.filter_eq_self.mp htypes) e he

theorem builtin_nodup : builtinScalars.Nodup := by decide

/-- **C16** — if a reference to a previously pruned built-in scalar `B` is added to a validated
    schema, re-validation appends exactly the definition of `B` and changes nothing else. -/
theorem restore_exact (order : List Name → List Name) (ho : IsOrder order) (s : Schema)
    (hfix : bookkeeping order s = s) (B : Name) (hB : B ∈ builtinScalars) (hund : s.defined B = false) :
    bookkeeping order { s with directiveRefs := B :: s.directiveRefs } =
      { s with directiveRefs := B :: s.directiveRefs, types := s.types ++ [(B, builtinDef)] } := by
  obtain ⟨hu, hkeep⟩ := fixpoint_facts order ho s hfix
  -- references after the change
  have hrefs : ∀ n, ({ s with directiveRefs := B :: s.directiveRefs } : Schema).allRefs.contains n =
      (n == B || s.allRefs.contains n) := by
    intro n; simp [Schema.allRefs, List.contains_cons]
  have hdef : ∀ n, ({ s with directiveRefs := B :: s.directiveRefs } : Schema).defined n = s.defined n := fun _ => rfl
  -- exactly B is used and undefined now
  have hnew : usedAndUndefined { s with directiveRefs := B :: s.directiveRefs } = [B] := by
    have hold : ∀ b ∈ builtinScalars, ¬ (s.allRefs.contains b = true ∧ s.defined b = false) := by
      intro b hb hc
      have : b ∈ usedAndUndefined s := (mem_usedAndUndefined s b).mpr ⟨hb, hc.1, hc.2⟩
      rw [hu] at this; simp at this
    unfold usedAndUndefined
    have hp : ∀ b ∈ builtinScalars, (({ s with directiveRefs := B :: s.directiveRefs } : Schema).allRefs.contains b &&
        !({ s with directiveRefs := B :: s.directiveRefs } : Schema).defined b) = (b == B) := by
      intro b hb
      rw [hrefs, hdef]
      by_cases hbb : b = B
      · subst hbb; simp [hund]
      · have h1 : (b == B) = false := by simpa using hbb
        have := hold b hb
        cases hc : s.allRefs.contains b <;> cases hd : s.defined b <;> simp_all
    rw [List.filter_congr hp]
    -- filter (· == B) over a duplicate-free list containing B
    have : ∀ (l : List Name), l.Nodup → B ∈ l → l.filter (· == B) = [B] := by
      intro l
      induction l with
      | nil => intro _ h; simp at h
      | cons x xs ih =>
        intro hn hm
        rw [List.nodup_cons] at hn
        by_cases hx : x = B
        · subst hx
          have : xs.filter (· == x) = [] := by
            rw [List.filter_eq_nil_iff]; intro y hy; simp; intro e; subst e; exact hn.1 hy
          simp [List.filter_cons, this]
        · have hx' : (x == B) = false := by simpa using hx
          have hm' : B ∈ xs := by
            rcases List.mem_cons.mp hm with h | h
            · exact absurd h.symm hx
            · exact h
          simp [List.filter_cons, hx', ih hn.2 hm']
    exact this _ builtin_nodup hB
  -- every existing entry is kept
  have hkeep' : ∀ e ∈ s.types, keep { s with directiveRefs := B :: s.directiveRefs } e = true := by
    intro e he
    unfold keep
    by_cases hb : e.2.isBuiltIn = true ∧ builtinScalars.contains e.1 = true
    · have hmem : e.1 ∈ builtinScalars := by simpa using hb.2
      have hd : s.defined e.1 = true := (defined_iff _ _).mpr ⟨e, he, rfl⟩
      have hr : s.allRefs.contains e.1 = true := by
        rcases hkeep e he with hall | hk
        · exact allUsed_referenced s hall e.1 hmem
        · unfold keep at hk
          simp only [hb.1, hb.2, Bool.not_true, Bool.false_or] at hk
          exact ((mem_usedAndDefined s e.1).mp (by simpa using hk)).2.1
      have : e.1 ∈ usedAndDefined { s with directiveRefs := B :: s.directiveRefs } :=
        (mem_usedAndDefined _ _).mpr ⟨hmem, by rw [hrefs, hr]; simp, hd⟩
      simp [this]
    · simp only [not_and, Bool.not_eq_true] at hb
      by_cases h1 : e.2.isBuiltIn = true
      · have : e.1 ∉ builtinScalars := by simpa using hb h1
        simp [this]
      · simp [h1]
  unfold bookkeeping
  simp only [hnew, ho.single B, List.map_cons, List.map_nil]
  have : (if allUsed { s with directiveRefs := B :: s.directiveRefs } = true then s.types
      else s.types.filter (keep { s with directiveRefs := B :: s.directiveRefs })) = s.types := by
    split
    · rfl
    · exact List.filter_eq_self.mpr hkeep'
  rw [this]

end Apollo.Scalars
