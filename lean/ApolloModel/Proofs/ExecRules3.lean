import ApolloModel.Proofs.ExecRules2
import ApolloModel.Proofs.Standalone
/-
C17 rule families, part 3: §5.1.1 executable definitions; the fragment-definition rules and the
operation-definition rules as unconditional "rejected iff" statements; the checks of the validation
walk node by node (§5.3.3 second half, §5.5.1.3, §5.5.2.1).
-/
set_option linter.unusedSimpArgs false
set_option linter.unusedVariables false
namespace Apollo.Standalone.Rules
open Apollo Apollo.Standalone

theorem diags_mono (s : Option Schema) (st : BuildState) (d : Def) (x : Diag) (h : x ∈ st.diags) :
    x ∈ (buildDef s st d).diags := by
  obtain ⟨extra, he⟩ := buildDef_diags_prefix s st d
  rw [he]; exact List.mem_append_left _ h

/-! ### §5.1.1 Executable Definitions -/

theorem tsd_step (s : Option Schema) (st : BuildState) (d : Def) :
    Diag.typeSystemDefinition ∈ (buildDef s st d).diags ↔ (Diag.typeSystemDefinition ∈ st.diags ∨ d = .typeSystem) := by
  have hsel : ∀ parent sels, Diag.typeSystemDefinition ∉ (buildSels s parent sels).2 := by
    intro parent sels hm; rcases buildSels_kinds _ _ _ _ hm with h | h | h <;> cases h
  have hop : ∀ o o' ds, buildOp s o = some (o', ds) → Diag.typeSystemDefinition ∉ ds := by
    intro o o' ds h
    unfold buildOp at h
    cases s with
    | none => simp only [Option.some.injEq, Prod.mk.injEq] at h; obtain ⟨_, rfl⟩ := h; exact hsel _ _
    | some sc =>
      simp only [] at h
      split at h
      · cases h
      · simp only [Option.some.injEq, Prod.mk.injEq] at h; obtain ⟨_, rfl⟩ := h; exact hsel _ _
  cases d with
  | typeSystem => simp [buildDef]
  | frag f =>
    simp only [buildDef, reduceCtorEq, or_false]
    split
    · simp
    · split
      · split
        · simp
        · simp [hsel]
      · simp [hsel]
  | op o =>
    simp only [buildDef, reduceCtorEq, or_false]
    cases hn : o.name with
    | some n =>
      simp only []
      split
      · simp only [List.mem_append, List.mem_singleton, reduceCtorEq, or_false]; split <;> simp
      · cases hb : buildOp s o with
        | none => simp only [List.mem_append, List.mem_singleton, reduceCtorEq, or_false]; split <;> simp
        | some r =>
          obtain ⟨o', ds⟩ := r
          simp only [List.mem_append, hop o o' ds hb, or_false]; split <;> simp
    | none =>
      simp only []
      split
      · simp only [List.mem_append, List.mem_singleton, reduceCtorEq, or_false]; split <;> simp
      · split
        · simp
        · cases hb : buildOp s o with
          | none => simp
          | some r => obtain ⟨o', ds⟩ := r; simp [hop o o' ds hb]

theorem tsd_fold (s : Option Schema) : ∀ (l : Ast) (st : BuildState),
    Diag.typeSystemDefinition ∈ (l.foldl (buildDef s) st).diags ↔ (Diag.typeSystemDefinition ∈ st.diags ∨ Def.typeSystem ∈ l)
  | [], st => by simp
  | d :: l, st => by
    simp only [List.foldl_cons, tsd_fold s l, tsd_step, List.mem_cons]
    constructor
    · rintro ((h | h) | h)
      · exact Or.inl h
      · exact Or.inr (Or.inl h.symm)
      · exact Or.inr (Or.inr h)
    · rintro (h | h | h)
      · exact Or.inl (Or.inl h)
      · exact Or.inl (Or.inr h.symm)
      · exact Or.inr h

/-- §5.1.1: `TypeSystemDefinition` is reported iff the document contains a definition that is not an
    operation or a fragment -/
theorem executable_definitions_iff (s : Option Schema) (ast : Ast) :
    Diag.typeSystemDefinition ∈ (build s ast).diags ↔ Def.typeSystem ∈ ast := by
  simp [build, tsd_fold]

/-! ### §5.5.1.1 + §5.5.1.2 (named fragments), unconditional -/

/-- §5.5.1.2 for fragment definitions: every type condition names a defined type -/
def FragmentConditionsDefined (s : Option Schema) (ast : Ast) : Prop :=
  ∀ f ∈ fragsOf ast, ∀ sc, s = some sc → (sc.kind f.tc).isSome = true

theorem utc_step (s : Option Schema) (st : BuildState) (d : Def) :
    Diag.undefinedTypeInNamedFragmentTypeCondition ∈ (buildDef s st d).diags ↔
      (Diag.undefinedTypeInNamedFragmentTypeCondition ∈ st.diags ∨
        ∃ f sc, d = .frag f ∧ s = some sc ∧ st.doc.frags.any (fun g => g.name == f.name) = false ∧ (sc.kind f.tc).isNone = true) := by
  have hsel : ∀ parent sels, Diag.undefinedTypeInNamedFragmentTypeCondition ∉ (buildSels s parent sels).2 := by
    intro parent sels hm; rcases buildSels_kinds _ _ _ _ hm with h | h | h <;> cases h
  have hop : ∀ o o' ds, buildOp s o = some (o', ds) → Diag.undefinedTypeInNamedFragmentTypeCondition ∉ ds := by
    intro o o' ds h
    unfold buildOp at h
    cases s with
    | none => simp only [Option.some.injEq, Prod.mk.injEq] at h; obtain ⟨_, rfl⟩ := h; exact hsel _ _
    | some sc =>
      simp only [] at h
      split at h
      · cases h
      · simp only [Option.some.injEq, Prod.mk.injEq] at h; obtain ⟨_, rfl⟩ := h; exact hsel _ _
  cases d with
  | typeSystem => simp [buildDef]
  | op o =>
    simp only [buildDef, reduceCtorEq, false_and, exists_false, or_false]
    cases hn : o.name with
    | some n =>
      simp only []
      split
      · simp only [List.mem_append, List.mem_singleton, reduceCtorEq, or_false]; split <;> simp
      · cases hb : buildOp s o with
        | none => simp only [List.mem_append, List.mem_singleton, reduceCtorEq, or_false]; split <;> simp
        | some r =>
          obtain ⟨o', ds⟩ := r
          simp only [List.mem_append, hop o o' ds hb, or_false]; split <;> simp
    | none =>
      simp only []
      split
      · simp only [List.mem_append, List.mem_singleton, reduceCtorEq, or_false]; split <;> simp
      · split
        · simp
        · cases hb : buildOp s o with
          | none => simp
          | some r => obtain ⟨o', ds⟩ := r; simp [hop o o' ds hb]
  | frag f =>
    simp only [buildDef, Def.frag.injEq, exists_and_left, exists_eq_left']
    by_cases hc : st.doc.frags.any (fun g => g.name == f.name) = true
    · simp [hc]
    · have hc' : st.doc.frags.any (fun g => g.name == f.name) = false := by simpa using hc
      simp only [hc', Bool.false_eq_true, if_false, true_and]
      cases s with
      | none => simp [hsel]
      | some sc =>
        simp only [Option.some.injEq, exists_eq_left']
        by_cases hk : (sc.kind f.tc).isNone = true
        · simp [hk]
        · simp [hk, hsel]

theorem fragsOf_snoc (pre : Ast) (d : Def) :
    fragsOf (pre ++ [d]) = fragsOf pre ++ (match d with | .frag f => [f] | _ => []) := by
  cases d <;> simp [fragsOf]

/-- FRAGMENT DEFINITIONS, the two rules together and without a guard: `FragmentNameCollision` or
    `UndefinedTypeInNamedFragmentTypeCondition` is reported iff two fragment definitions have the same name
    (§5.5.1.1) or some fragment's type condition is not a defined type (§5.5.1.2). -/
theorem fragment_definitions_iff (s : Option Schema) (ast : Ast) :
    (Diag.fragmentNameCollision ∈ (build s ast).diags ∨ Diag.undefinedTypeInNamedFragmentTypeCondition ∈ (build s ast).diags) ↔
      (¬ FragmentNamesUnique ast ∨ ¬ FragmentConditionsDefined s ast) := by
  have key : ∀ (l : Ast) (st : BuildState) (pre : Ast),
      (((Diag.fragmentNameCollision ∈ st.diags ∨ Diag.undefinedTypeInNamedFragmentTypeCondition ∈ st.diags) ↔
          (¬ (fragNames pre).Nodup ∨ ¬ FragmentConditionsDefined s pre)) ∧
        (¬ (¬ (fragNames pre).Nodup ∨ ¬ FragmentConditionsDefined s pre) → FragInv st pre)) →
      (((Diag.fragmentNameCollision ∈ (l.foldl (buildDef s) st).diags ∨
            Diag.undefinedTypeInNamedFragmentTypeCondition ∈ (l.foldl (buildDef s) st).diags) ↔
          (¬ (fragNames (pre ++ l)).Nodup ∨ ¬ FragmentConditionsDefined s (pre ++ l)))) := by
    intro l
    induction l with
    | nil => intro st pre h; simpa using h.1
    | cons d l ih =>
      intro st pre ⟨h1, h2⟩
      have := ih (buildDef s st d) (pre ++ [d]) ?_
      · simpa [List.append_assoc] using this
      · -- one step
        have hmonoR : (¬ (fragNames pre).Nodup ∨ ¬ FragmentConditionsDefined s pre) →
            (¬ (fragNames (pre ++ [d])).Nodup ∨ ¬ FragmentConditionsDefined s (pre ++ [d])) := by
          rintro (h | h)
          · left; intro hn; apply h
            simp only [fragNames, fragsOf_snoc, List.map_append] at hn
            exact (List.nodup_append.mp hn).1
          · right; intro hn; apply h
            intro f hf; exact hn f (by rw [fragsOf_snoc]; exact List.mem_append_left _ hf)
        by_cases hbad : (¬ (fragNames pre).Nodup ∨ ¬ FragmentConditionsDefined s pre)
        · have hl := h1.mpr hbad
          refine ⟨⟨fun _ => hmonoR hbad, fun _ => ?_⟩, fun hn => absurd (hmonoR hbad) hn⟩
          rcases hl with hl | hl
          · exact Or.inl (diags_mono s st d _ hl)
          · exact Or.inr (diags_mono s st d _ hl)
        · have inv := h2 hbad
          have hnl : ¬ (Diag.fragmentNameCollision ∈ st.diags ∨ Diag.undefinedTypeInNamedFragmentTypeCondition ∈ st.diags) :=
            fun hl => hbad (h1.mp hl)
          have hnodup : (fragNames pre).Nodup := Classical.not_not.mp (fun h => hbad (Or.inl h))
          have hdef : FragmentConditionsDefined s pre := Classical.not_not.mp (fun h => hbad (Or.inr h))
          -- is the current definition a fragment with an undefined type condition?
          by_cases hcur : ∃ f sc, d = .frag f ∧ s = some sc ∧ (sc.kind f.tc).isNone = true
          · obtain ⟨f, sc, rfl, rfl, hk⟩ := hcur
            have hR : ¬ FragmentConditionsDefined (some sc) (pre ++ [.frag f]) := by
              intro hn
              have := hn f (by rw [fragsOf_snoc]; simp) sc rfl
              cases hkk : sc.kind f.tc <;> simp_all
            refine ⟨⟨fun _ => Or.inr hR, fun _ => ?_⟩, fun hn => absurd (Or.inr hR) hn⟩
            by_cases hc : st.doc.frags.any (fun g => g.name == f.name) = true
            · left; simp [buildDef, hc]
            · right
              have hc' : st.doc.frags.any (fun g => g.name == f.name) = false := by simpa using hc
              exact (utc_step (some sc) st (.frag f)).mpr (Or.inr ⟨f, sc, rfl, rfl, hc', hk⟩)
          · have hb : ∀ f, d = .frag f → ∀ sc, s = some sc → (sc.kind f.tc).isSome = true := by
              intro f hf sc hs
              cases hkk : sc.kind f.tc with
              | some k => rfl
              | none => exact absurd ⟨f, sc, hf, hs, by simp [hkk]⟩ hcur
            have inv' := frag_step s st pre d inv hb
            have hdef' : FragmentConditionsDefined s (pre ++ [d]) := by
              intro f hf sc hs
              rw [fragsOf_snoc] at hf
              rcases List.mem_append.mp hf with hf | hf
              · exact hdef f hf sc hs
              · cases d with
                | frag g => simp at hf; subst hf; exact hb _ rfl sc hs
                | op o => simp at hf
                | typeSystem => simp at hf
            have hutc : Diag.undefinedTypeInNamedFragmentTypeCondition ∉ (buildDef s st d).diags := by
              intro hm
              rcases (utc_step s st d).mp hm with h | ⟨f, sc, hf, hs, _, hk⟩
              · exact hnl (Or.inr h)
              · exact hcur ⟨f, sc, hf, hs, hk⟩
            refine ⟨⟨?_, ?_⟩, fun _ => inv'⟩
            · rintro (h | h)
              · exact Or.inl (inv'.col.mp h)
              · exact absurd h hutc
            · rintro (h | h)
              · exact Or.inl (inv'.col.mpr h)
              · exact absurd hdef' h
  have := key ast {} [] ⟨by simp [fragNames, fragsOf, FragmentConditionsDefined], fun _ =>
    ⟨by intro n; simp [fragNames, fragsOf], by simp [fragNames, fragsOf]⟩⟩
  simpa [build, FragmentNamesUnique] using this

/-! ### §5.2.1.1 + §5.2.2.1 + root operation types, unconditional -/

theorem ur_step (s : Option Schema) (st : BuildState) (d : Def)
    (h : Diag.undefinedRootOperation ∈ (buildDef s st d).diags) :
    Diag.undefinedRootOperation ∈ st.diags ∨ ∃ o, d = .op o ∧ buildOp s o = none := by
  have hsel : ∀ parent sels, Diag.undefinedRootOperation ∉ (buildSels s parent sels).2 := by
    intro parent sels hm; rcases buildSels_kinds _ _ _ _ hm with h | h | h <;> cases h
  have hop : ∀ o o' ds, buildOp s o = some (o', ds) → Diag.undefinedRootOperation ∉ ds := by
    intro o o' ds h
    unfold buildOp at h
    cases s with
    | none => simp only [Option.some.injEq, Prod.mk.injEq] at h; obtain ⟨_, rfl⟩ := h; exact hsel _ _
    | some sc =>
      simp only [] at h
      split at h
      · cases h
      · simp only [Option.some.injEq, Prod.mk.injEq] at h; obtain ⟨_, rfl⟩ := h; exact hsel _ _
  cases d with
  | typeSystem => simp [buildDef] at h; exact Or.inl h
  | frag f =>
    simp only [buildDef] at h
    split at h
    · simp at h; exact Or.inl h
    · split at h
      · split at h
        · simp at h; exact Or.inl h
        · simp [hsel] at h; exact Or.inl h
      · simp [hsel] at h; exact Or.inl h
  | op o =>
    cases hb : buildOp s o with
    | none => exact Or.inr ⟨o, rfl, hb⟩
    | some r =>
      obtain ⟨o', ds⟩ := r
      left
      simp only [buildDef, hb] at h
      cases hn : o.name with
      | some n =>
        simp only [hn] at h
        split at h
        · simp only [List.mem_append, List.mem_singleton, reduceCtorEq, or_false] at h
          rcases h with h | h
          · exact h
          · split at h <;> simp at h
        · simp only [List.mem_append, hop o o' ds hb, or_false] at h
          rcases h with h | h
          · exact h
          · split at h <;> simp at h
      | none =>
        simp only [hn] at h
        split at h
        · simp only [List.mem_append, List.mem_singleton, reduceCtorEq, or_false] at h
          rcases h with h | h
          · exact h
          · split at h <;> simp at h
        · split at h
          · simp at h; exact h
          · simp [hop o o' ds hb] at h; exact h

theorem op_unbuildable_reported (s : Option Schema) (st : BuildState) (o : Op) (hb : buildOp s o = none) :
    Diag.ambiguousAnonymousOperation ∈ (buildDef s st (.op o)).diags ∨ Diag.operationNameCollision ∈ (buildDef s st (.op o)).diags ∨
      Diag.undefinedRootOperation ∈ (buildDef s st (.op o)).diags := by
  simp only [buildDef, hb]
  cases hn : o.name with
  | some n =>
    simp only []
    split
    · right; left; simp
    · right; right; simp
  | none =>
    simp only []
    split
    · left; simp
    · split
      · left; simp
      · right; right; simp

/-- every operation's type has a root operation type in the schema (apollo's own rule
    `UndefinedRootOperation`; the specification presupposes it) -/
def RootTypesDefined (s : Option Schema) (ast : Ast) : Prop := AllOpsBuild s ast

theorem anon_mono (pre : Ast) (d : Def) (h : anonCount pre > 0 ∧ (opsOf pre).length > 1) :
    anonCount (pre ++ [d]) > 0 ∧ (opsOf (pre ++ [d])).length > 1 := by
  cases d with
  | op o => rw [anonCount_snoc, opsOf_snoc_op]; simp; omega
  | frag f => rw [show anonCount (pre ++ [.frag f]) = anonCount pre by simp [anonCount, opsOf],
      show opsOf (pre ++ [.frag f]) = opsOf pre by simp [opsOf]]; exact h
  | typeSystem => rw [show anonCount (pre ++ [.typeSystem]) = anonCount pre by simp [anonCount, opsOf],
      show opsOf (pre ++ [.typeSystem]) = opsOf pre by simp [opsOf]]; exact h

theorem opsOf_snoc (pre : Ast) (d : Def) : opsOf (pre ++ [d]) = opsOf pre ++ (match d with | .op o => [o] | _ => []) := by
  cases d <;> simp [opsOf]

/-- OPERATIONS, the three rules together and without a guard: `AmbiguousAnonymousOperation`,
    `OperationNameCollision` or `UndefinedRootOperation` is reported iff the anonymous operation is not
    alone (§5.2.2.1), two operations have the same name (§5.2.1.1), or some operation's type has no
    root type in the schema. -/
theorem operation_definitions_iff (s : Option Schema) (ast : Ast) :
    (Diag.ambiguousAnonymousOperation ∈ (build s ast).diags ∨ Diag.operationNameCollision ∈ (build s ast).diags ∨
        Diag.undefinedRootOperation ∈ (build s ast).diags) ↔
      (¬ LoneAnonymousOperation ast ∨ ¬ OperationNamesUnique ast ∨ ¬ RootTypesDefined s ast) := by
  let L (st : BuildState) : Prop := Diag.ambiguousAnonymousOperation ∈ st.diags ∨ Diag.operationNameCollision ∈ st.diags ∨
        Diag.undefinedRootOperation ∈ st.diags
  let R (pre : Ast) : Prop := ¬ LoneAnonymousOperation pre ∨ ¬ OperationNamesUnique pre ∨ ¬ RootTypesDefined s pre
  have key : ∀ (l : Ast) (st : BuildState) (pre : Ast), ((L st ↔ R pre) ∧ (¬ R pre → OpsInv st pre)) →
      (L (l.foldl (buildDef s) st) ↔ R (pre ++ l)) := by
    intro l
    induction l with
    | nil => intro st pre h; simpa using h.1
    | cons d l ih =>
      intro st pre ⟨h1, h2⟩
      have := ih (buildDef s st d) (pre ++ [d]) ?_
      · simpa [List.append_assoc] using this
      · have hmonoL : L st → L (buildDef s st d) := by
          rintro (h | h | h)
          · exact Or.inl (diags_mono s st d _ h)
          · exact Or.inr (Or.inl (diags_mono s st d _ h))
          · exact Or.inr (Or.inr (diags_mono s st d _ h))
        have hmonoR : R pre → R (pre ++ [d]) := by
          rintro (h | h | h)
          · left; intro hn; apply h; intro hc; exact hn (anon_mono pre d hc)
          · right; left; intro hn; apply h
            simp only [OperationNamesUnique, namedNames, opsOf_snoc, List.filterMap_append] at hn ⊢
            exact (List.nodup_append.mp hn).1
          · right; right; intro hn; apply h
            intro o ho; exact hn o (by rw [opsOf_snoc]; exact List.mem_append_left _ ho)
        by_cases hbad : R pre
        · exact ⟨⟨fun _ => hmonoR hbad, fun _ => hmonoL (h1.mpr hbad)⟩, fun hn => absurd (hmonoR hbad) hn⟩
        · have inv := h2 hbad
          have hnl : ¬ L st := fun hl => hbad (h1.mp hl)
          have hall : RootTypesDefined s pre := Classical.not_not.mp (fun h => hbad (Or.inr (Or.inr h)))
          by_cases hcur : ∃ o, d = .op o ∧ buildOp s o = none
          · obtain ⟨o, rfl, hb⟩ := hcur
            have hR : ¬ RootTypesDefined s (pre ++ [.op o]) := by
              intro hn
              have := hn o (by rw [opsOf_snoc_op]; simp)
              simp [hb] at this
            exact ⟨⟨fun _ => Or.inr (Or.inr hR), fun _ => op_unbuildable_reported s st o hb⟩,
              fun hn => absurd (Or.inr (Or.inr hR)) hn⟩
          · have hb : ∀ o, d = .op o → (buildOp s o).isSome = true := by
              intro o ho
              cases hbb : buildOp s o with
              | some r => rfl
              | none => exact absurd ⟨o, ho, hbb⟩ hcur
            have inv' := ops_step s st pre d inv hb
            have hall' : RootTypesDefined s (pre ++ [d]) := by
              intro o ho
              rw [opsOf_snoc] at ho
              rcases List.mem_append.mp ho with ho | ho
              · exact hall o ho
              · cases d with
                | op g => simp at ho; subst ho; exact hb _ rfl
                | frag f => simp at ho
                | typeSystem => simp at ho
            have hur : Diag.undefinedRootOperation ∉ (buildDef s st d).diags := by
              intro hm
              rcases ur_step s st d hm with h | h
              · exact hnl (Or.inr (Or.inr h))
              · exact hcur h
            refine ⟨⟨?_, ?_⟩, fun _ => inv'⟩
            · rintro (h | h | h)
              · left; intro hl; exact hl (inv'.amb.mp h)
              · right; left; exact inv'.col.mp h
              · exact absurd h hur
            · rintro (h | h | h)
              · left; apply inv'.amb.mpr; exact Classical.not_not.mp h
              · right; left; exact inv'.col.mpr h
              · exact absurd hall' h
  have := key ast {} [] ⟨by
      simp only [L, R, LoneAnonymousOperation, OperationNamesUnique, RootTypesDefined, AllOpsBuild]
      simp [anonCount, namedNames, opsOf], fun _ => ops_inv_init⟩
  simpa [build, L, R] using this

/-! ### the checks of the validation walk, node by node: §5.3.3 (composite fields need a sub-selection),
§5.5.1.3 Fragments On Composite Types, §5.5.2.1 Fragment Spread Target Defined -/

theorem undefinedArgs_kind (defs : List ArgDef) (as : List Arg) : ∀ d ∈ undefinedArgs defs as, d = .undefinedArgument := by
  intro d hd; simp only [undefinedArgs, List.mem_map] at hd; obtain ⟨_, _, rfl⟩ := hd; rfl
theorem requiredArgs_kind (defs : List ArgDef) (as : List Arg) : ∀ d ∈ requiredArgs defs as, d = .requiredArgument := by
  intro d hd; simp only [requiredArgs, List.mem_map] at hd; obtain ⟨_, _, rfl⟩ := hd; rfl

/-- §5.3.3, second half: a field WITHOUT sub-selection is reported `MissingSubselection` iff its type is an
    object, interface or union type -/
theorem missing_subselection_iff (p : Params) (sc : Schema) (doc : BuiltDoc)
    (enter : Frag → List Name → List Diag × List Name) (t name : Name) (dirs : List Dir) (args : List Arg)
    (V : List Name) (fd : FieldDef) (hf : sc.field t name = some fd) :
    Diag.missingSubselection ∈ (walkSels p (some sc) doc enter (some t) (.field name dirs args .nil .nil) V).1 ↔
      sc.kind fd.ty = some .composite := by
  have h1 : Diag.missingSubselection ∉ dirDiags p (some sc) .field dirs := by
    intro h; have := ExecRules.dirDiags_kind p _ _ _ _ h; simp [ExecRules.Diag.isDirectiveKind] at this
  have h2 : Diag.missingSubselection ∉ uniqueArgs [] args := by
    intro h; have := ExecRules.uniqueArgs_kind _ _ _ h; cases this
  have h3 : Diag.missingSubselection ∉ undefinedArgs fd.args args := by intro h; have := undefinedArgs_kind _ _ _ h; cases this
  have h4 : Diag.missingSubselection ∉ requiredArgs fd.args args := by intro h; have := requiredArgs_kind _ _ _ h; cases this
  simp only [walkSels, hf, Sels.isNil, Bool.true_and, List.append_nil, List.mem_append, h1, h2, false_or]
  by_cases hk : (sc.kind fd.ty == some Kind.composite) = true
  · simp only [hk, if_true, List.mem_append, h3, h4, false_or, List.mem_singleton, true_iff]
    simpa using hk
  · simp only [hk, Bool.false_eq_true, if_false, List.mem_append, h3, h4, false_or, List.not_mem_nil, false_iff]
    simpa using hk

/-- §5.5.1.3 at a fragment definition: a type condition that is not an object, interface or union type
    is reported, and the fragment's selections are then not looked at … -/
theorem fragment_on_non_composite_reported (p : Params) (sc : Schema) (doc : BuiltDoc) (n : Nat) (f : Frag) (V : List Name)
    (h : sc.kind f.tc ≠ some .composite) :
    Diag.invalidFragmentTarget ∈ (enterFrag p (some sc) doc (n + 1) f V).1 ∧ (enterFrag p (some sc) doc (n + 1) f V).2 = V := by
  have hk : (sc.kind f.tc == some Kind.composite) = false := by simpa using h
  simp [enterFrag, hk]

/-- … and with a composite type condition (and no cycle) the definition itself adds nothing but the
    diagnostics of its directives: what follows is the walk of its selection set -/
theorem fragment_on_composite_walks_body (p : Params) (sc : Schema) (doc : BuiltDoc) (n : Nat) (f : Frag) (V : List Name)
    (h : sc.kind f.tc = some .composite) (hc : f.name ∉ reach doc f.sels) :
    enterFrag p (some sc) doc (n + 1) f V =
      (dirDiags p (some sc) .fragmentDefinition f.dirs ++
          (walkSels p (some sc) doc (enterFrag p (some sc) doc n) (fragTy (some sc) f) f.sels V).1,
        (walkSels p (some sc) doc (enterFrag p (some sc) doc n) (fragTy (some sc) f) f.sels V).2) := by
  simp [enterFrag, h, hc]

/-- §5.5.1.3 at an inline fragment: the same for its type condition -/
theorem inline_on_non_composite_reported (p : Params) (sc : Schema) (doc : BuiltDoc)
    (enter : Frag → List Name → List Diag × List Name) (ty : Option Name) (t : Name) (dirs : List Dir) (sub rest : Sels)
    (V : List Name) (h : sc.kind t ≠ some .composite) :
    Diag.invalidFragmentTarget ∈ (walkSels p (some sc) doc enter ty (.inline (some t) dirs sub rest) V).1 := by
  have hk : (sc.kind t == some Kind.composite) = false := by simpa using h
  simp [walkSels, hk]

/-- §5.5.2.1 at a fragment spread: `UndefinedFragment` iff the document defines no fragment of that name
    (for a defined one the spread adds its directives' diagnostics and, the first time in this
    operation, the fragment definition's) -/
theorem spread_target_defined_iff (p : Params) (s : Option Schema) (doc : BuiltDoc)
    (enter : Frag → List Name → List Diag × List Name) (ty : Option Name) (f : Name) (dirs : List Dir) (V : List Name) :
    (walkSels p s doc enter ty (.spread f dirs .nil) V).1 =
      dirDiags p s .fragmentSpread dirs ++
        (match doc.findFrag f with
         | some d => if f ∈ V then [] else (enter d (f :: V)).1
         | none => [.undefinedFragment]) := by
  simp only [walkSels, List.append_nil]
  cases doc.findFrag f with
  | none => rfl
  | some d => by_cases hv : f ∈ V <;> simp [hv]

end Apollo.Standalone.Rules
