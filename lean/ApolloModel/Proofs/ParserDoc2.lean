import ApolloModel.Proofs.ParserDoc1
/-
C05 growth (top level), part 2: the `peek_while` loop of `document()`.
-/
set_option linter.unusedSimpArgs false
namespace Apollo.Parse
open Apollo.Rowan hiding Str
open Apollo.Lex hiding Str

/-- a sequence of definitions of the grammar, each in the long or the shorthand form -/
def IsDefs (x : List Ast.Tok) : Prop := ∃ items : List (List Ast.Tok), x = items.flatten ∧ ∀ i ∈ items, IsDef i

def flagged (s : PState) : PState := { s with deadBranch := s.deadBranch || !(s.recCur == 0) }

theorem assertRecZero_run (s : PState) : assertRecZero.run s = .ok () (flagged s) := rfl

theorem toks_flagged (s : PState) : Toks (flagged s) = Toks s := rfl
theorem doomed_flagged (s : PState) : Doomed (flagged s) ↔ Doomed s := Iff.rfl
theorem tw_flagged {s : PState} (w : TW s) : TW (flagged s) := ⟨w.limit, w.acc⟩
theorem eofEnd_flagged {s : PState} (h : EofEnd s) : EofEnd (flagged s) := h

theorem good_assertRecZero : Good assertRecZero := by
  intro s a s' w h
  rw [assertRecZero_run] at h
  injection h with _ h
  subst h
  exact ⟨tw_flagged w, fun d => d, rfl, rfl⟩

theorem good_peekDataN (k : Nat) : Good (peekDataN k) := good_bind _ _ (good_peekTokenN k) (fun _ => good_pure _)

theorem good_extensions {n : Nat} (L : DefLemmas n) : Good (extensions n) := by
  unfold extensions
  refine good_bind _ _ (good_peekDataN 2) (fun d => ?_)
  refine good_ite _ _ _ L.schemaExt.1 (good_ite _ _ _ L.scalarExt.1 (good_ite _ _ _ L.objectExt.1
    (good_ite _ _ _ L.interfaceExt.1 (good_ite _ _ _ L.unionExt.1 (good_ite _ _ _ L.enumExt.1
    (good_ite _ _ _ L.inputExt.1 good_errAndPop))))))

theorem good_selectDefinition {n : Nat} (L : DefLemmas n) (d : Str) : Good (selectDefinition n d) := by
  unfold selectDefinition
  refine good_ite _ _ _ L.directive.1 (good_ite _ _ _ L.enumDef.1 (good_ite _ _ _ (good_extensions L)
    (good_ite _ _ _ L.fragment.1 (good_ite _ _ _ L.input.1 (good_ite _ _ _ L.interface.1
    (good_ite _ _ _ L.object.1 (good_ite _ _ _ L.opQuery.1 (good_ite _ _ _ L.scalar.1
    (good_ite _ _ _ L.schema.1 (good_ite _ _ _ L.union.1 good_errAndPop))))))))))

theorem good_documentDispatch {n : Nat} (L : DefLemmas n) (k : Kind) : Good (documentDispatch n k) := by
  unfold documentDispatch
  refine good_ite _ _ _ (good_bind _ _ (good_peekDataN 2) (fun d => ?_))
    (good_ite _ _ _ (good_bind _ _ good_peekData (fun d => ?_)) good_errAndPop)
  · cases d with
    | none => exact good_errAndPop
    | some d => exact good_selectDefinition L d
  · cases d with
    | none => exact good_errAndPop
    | some d => exact good_selectDefinition L d

theorem good_documentStep {n : Nat} (L : DefLemmas n) (k : Kind) : Good (documentStep n k) := by
  unfold documentStep
  refine good_ite _ _ _ (good_bind _ _ good_assertRecZero (fun _ => good_pure _))
    (good_bind _ _ good_assertRecZero (fun _ => good_bind _ _ (good_documentDispatch L k) (fun _ => good_pure _)))

/-- **the loop of `document()`**: an error-free run consumes a sequence of definitions of the grammar and stops
    in front of the EOF token, nowhere else -/
theorem docLoop_sound {n : Nat} (L : DefLemmas n) : ∀ (fuel : Nat) (s s' : PState), TW s → EofEnd s → LexQ (Toks s) →
    (peekWhileLoop (documentStep n) fuel).run s = .ok () s' → ¬ Doomed s' →
    ∃ cs x, Toks s = cs ++ Toks s' ∧ NoEof cs ∧ EofEnd s' ∧ TokIs (sig cs) x ∧ IsDefs x ∧ AtEof s' := by
  intro fuel
  induction fuel with
  | zero => intro s s' _ _ _ h; simp [peekWhileLoop, PI.outOfFuel] at h
  | succ fuel ih =>
    intro s s' w he hs h hnd
    unfold peekWhileLoop at h
    obtain ⟨ko, sP, hp, h2⟩ := bind_dec peek _ s s' () h
    obtain ⟨o, p', hko⟩ := peek_obs s sP ko w hp
    subst hko
    have heP : EofEnd sP := eofEnd_eat he p'.eat (by intro x hx; cases hx)
    cases o with
    | none =>
      simp only [Option.map_none] at h2
      rw [run_pure] at h2
      injection h2 with _ h2
      subst h2
      exfalso
      have hndP : ¬ Doomed sP := hnd
      have hne := eofEnd_nonempty sP heP hndP
      have hh := p'.head
      rw [← p'.toks] at hh
      cases hq : Toks sP with
      | nil => exact hne hq
      | cons a b => rw [hq] at hh; cases hh
    | some t =>
      simp only [Option.map_some] at h2
      have h3 := getCurrent_dec _ sP s' () h2
      obtain ⟨b, sB, hb, h4⟩ := bind_dec (documentStep n t.kind) _ sP s' () h3
      have htP : Toks sP = t :: (Toks sP).tail := p'.head_cons
      unfold documentStep at hb
      by_cases hk : (t.kind == .eof) = true
      · -- the EOF token: the loop stops
        simp only [hk, if_true] at hb
        obtain ⟨_, s0, e0, e1⟩ := bind_dec assertRecZero _ sP sB b hb
        rw [assertRecZero_run] at e0
        injection e0 with _ e0
        subst e0
        rw [run_pure] at e1
        injection e1 with e1 e2
        subst e1 e2
        simp only [Bool.false_eq_true, if_false] at h4
        rw [run_pure] at h4
        injection h4 with _ h4
        subst h4
        refine ⟨[], [], by rw [toks_flagged, p'.toks]; rfl, (by intro x hx; cases hx), eofEnd_flagged heP, TokIs.nil,
          ⟨[], rfl, by intro i hi; cases hi⟩, ?_⟩
        exact ⟨t, by rw [toks_flagged, htP]; rfl, by simpa using hk⟩
      · simp only [hk, Bool.false_eq_true, if_false] at hb
        obtain ⟨_, s0, e0, eD⟩ := bind_dec assertRecZero _ sP sB b hb
        rw [assertRecZero_run] at e0
        injection e0 with _ e0
        subst e0
        obtain ⟨_, sD, eD2, e1⟩ := bind_dec (documentDispatch n t.kind) _ (flagged sP) sB b eD
        rw [run_pure] at e1
        injection e1 with e1 e2
        subst e1 e2
        simp only [if_true] at h4
        have h5 := getCurrent_dec _ sD s' () h4
        have aD := good_documentDispatch L t.kind (flagged sP) () sD (tw_flagged p'.w) eD2
        by_cases hsame : (sP.current == sD.current) = true
        · simp only [hsame, if_true] at h5
          exact absurd h5 (stuck_not_ok _ _ _)
        · simp only [hsame, Bool.false_eq_true, if_false] at h5
          have hndD : ¬ Doomed sD := fun d => hnd ((good_peekWhileLoop _ (good_documentStep L) fuel sD () s' aD.w h5).doom d)
          have hsP : LexQ (Toks sP) := by rw [p'.toks]; exact hs
          obtain ⟨c1, t1, n1, e1', r1⟩ := documentDispatch_sound L (flagged sP) sD t (Toks sP).tail (tw_flagged p'.w)
            (eofEnd_flagged heP) (by rw [toks_flagged]; exact hsP) p'.current (by rw [toks_flagged]; exact htP) eD2 hndD
          rw [toks_flagged] at t1
          have hsD : LexQ (Toks sD) := by rw [t1] at hsP; exact hsP.suffix
          obtain ⟨c2, x2, t2, n2, e2', hx2, ⟨items, hxi, hall⟩, hat⟩ := ih sD s' aD.w e1' hsD h5 hnd
          rcases r1 with ⟨x1, hx1, hd1⟩ | ev
          · refine ⟨c1 ++ c2, x1 ++ x2, by rw [← p'.toks, t1, t2, List.append_assoc], noEof_append n1 n2, e2', ?_,
              ⟨x1 :: items, by simp [hxi], ?_⟩, hat⟩
            · rw [sig_append]; exact hx1.append hx2
            · intro i hi'
              rcases List.mem_cons.mp hi' with rfl | hi'
              · exact hd1
              · exact hall i hi'
          · exact absurd ev id

end Apollo.Parse
