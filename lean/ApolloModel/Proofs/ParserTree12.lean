import ApolloModel.Proofs.ParserTree11
/-
C08 growth (pipeline), part 12: stage (ii) — values end to end: what `value.rs` builds, what `from_cst.rs` reads from
it, and what the reference parser `pValue` reads from the same tokens.
-/
set_option linter.unusedSimpArgs false
set_option linter.unusedVariables false
namespace Apollo.Parse
open Apollo.Rowan hiding Str
open Apollo.Lex hiding Str
open Apollo.FromCst (ValTree ConvE cValue size cValue_valTree)

theorem isValueKeyword_false {n : Str} (h : isValueKeyword n = false) :
    (n != Ast.sTrue && n != Ast.sFalse && n != Ast.sNull) = true := by
  simp only [isValueKeyword, kw, Bool.or_eq_false_iff, beq_eq_false_iff_ne, ne_eq] at h
  simp only [Ast.sTrue, Ast.sFalse, Ast.sNull, Bool.and_eq_true, bne_iff_ne, ne_eq]
  exact h

mutual
  theorem valueOk_wf : ∀ (c : Bool) (v : Ast.Value), valueOk c v = true → Ast.wfValue v = true
    | c, .enum n, h => by
      simp only [valueOk, Bool.not_eq_true'] at h
      simpa [Ast.wfValue] using isValueKeyword_false h
    | c, .list vs, h => by simp only [valueOk] at h; simp only [Ast.wfValue]; exact valuesOk_wf c vs h
    | c, .obj fs, h => by simp only [valueOk] at h; simp only [Ast.wfValue]; exact fieldsOk_wf c fs h
    | _, .null, _ | _, .bool _, _ | _, .str _, _ | _, .var _, _ | _, .float _, _ | _, .int _, _ => rfl
  theorem valuesOk_wf : ∀ (c : Bool) (vs : Ast.Values), valuesOk c vs = true → Ast.wfValues vs = true
    | _, .nil, _ => rfl
    | c, .cons v tl, h => by
      simp only [valuesOk, Bool.and_eq_true] at h
      simp [Ast.wfValues, valueOk_wf c v h.1, valuesOk_wf c tl h.2]
  theorem fieldsOk_wf : ∀ (c : Bool) (fs : Ast.ObjFields), fieldsOk c fs = true → Ast.wfObjFields fs = true
    | _, .nil, _ => rfl
    | c, .cons _ v tl, h => by
      simp only [fieldsOk, Bool.and_eq_true] at h
      simp [Ast.wfObjFields, valueOk_wf c v h.1, fieldsOk_wf c tl h.2]
end

/-- `tValue` is injective on well-formed values -/
theorem tValue_injective {v v' : Ast.Value} (hv : Ast.wfValue v = true) (hv' : Ast.wfValue v' = true)
    (h : Ast.tValue v = Ast.tValue v') : v = v' := by
  have h1 := Ast.value_roundtrip v (Ast.szValue v + Ast.szValue v') [] hv (by omega)
  have h2 := Ast.value_roundtrip v' (Ast.szValue v + Ast.szValue v') [] hv' (by omega)
  rw [h] at h1
  rw [h1] at h2
  simpa using h2

/-- **stage (ii): values.**  An error-free run of `value.rs::value` from a state of the calculus consumed the tokens of
    ONE value `v` (well-formed; without variables in a constant context), appended exactly one element `ev` besides junk,
    `impl Convert for cst::Value` on `ev` returns `v`, and so does the reference parser `pValue` on the tokens — or the
    run stopped at the end of input inside an unclosed list. -/
theorem value_pipeline (n : Nat) (c p : Bool) (s s' : PState) (st : St s)
    (h : (value n c p).run s = .ok () s') (hnd : ¬ Doomed s') :
    ∃ cs added, Toks s = cs ++ Toks s' ∧ s'.builder.children = s.builder.children ++ added ∧
      ((∃ v ev, TokIs (sig cs) (Ast.tValue v) ∧ valueOk c v = true ∧ sigE added = [ev] ∧ ValTree v ev ∧
          ConvE (fun R => @cValue R (size ev)) v ev ∧ Ast.pValue (Ast.szValue v) (Ast.tValue v) = some (v, []))
        ∨ AtEof s') := by
  obtain ⟨cs, added, t1, _, _, b1, r1⟩ := (tr_value n c p).2 s () s' st.w st.inv st.eof st.lq trivial h hnd
  refine ⟨cs, added, t1, b1, ?_⟩
  rcases r1 with ⟨v, ev, h1, h2, h3, h4⟩ | e
  · left
    refine ⟨v, ev, h1, h2, h3, h4, cValue_valTree _ v ev h4 (Nat.le_refl _), ?_⟩
    have := Ast.value_roundtrip v (Ast.szValue v) [] (valueOk_wf c v h2) (Nat.le_refl _)
    simpa using this
  · exact Or.inr e

/-- **pipeline_print_parse_value**: if the tokens consumed by an error-free run of `value` spell the printed tokens
    `tValue v0` of a well-formed value `v0`, the element built converts to `v0` itself -/
theorem pipeline_print_parse_value (n : Nat) (c p : Bool) (s s' : PState) (st : St s)
    (h : (value n c p).run s = .ok () s') (hnd : ¬ Doomed s') (hne : ¬ AtEof s')
    (v0 : Ast.Value) (hwf : Ast.wfValue v0 = true) (cs : List Tok) (ht : Toks s = cs ++ Toks s')
    (hspell : TokIs (sig cs) (Ast.tValue v0)) :
    ∃ added ev, s'.builder.children = s.builder.children ++ added ∧ sigE added = [ev] ∧
      ConvE (fun R => @cValue R (size ev)) v0 ev := by
  obtain ⟨cs', added, t1, b1, r⟩ := value_pipeline n c p s s' st h hnd
  rcases r with ⟨v, ev, h1, h2, h3, h4, h5, _⟩ | e
  · have hcs : cs' = cs := by
      have := t1.symm.trans ht
      exact List.append_cancel_right this
    subst hcs
    have hv : v = v0 := by
      apply tValue_injective (valueOk_wf c v h2) hwf
      unfold TokIs at h1 hspell
      rw [h1] at hspell
      exact map_some_inj hspell
    subst hv
    exact ⟨added, ev, b1, h3, h5⟩
  · exact absurd e hne

end Apollo.Parse
