import ApolloModel.Proofs.ParserRecursion21
/-
C04 growth (token limit at the parser level), part 22: the invariant pass (`Keeps P`) for every loop and every
composite primitive of parser/mod.rs, by the automation of parts 16 and 19.
-/
set_option linter.unusedSimpArgs false
set_option linter.unusedVariables false
namespace Apollo.Parse
open Apollo.Rowan hiding Str
open Apollo.Lex hiding Str

variable {P : PState → Prop} [StInv P]

syntax "kp_leaf" : tactic
macro_rules | `(tactic| kp_leaf) => `(tactic| assumption)
macro_rules | `(tactic| kp_leaf) => `(tactic| first
  | exact kp_pure _
  | exact kp_peekToken | exact kp_moveCurToPending | exact kp_srcLen
  | exact kp_getCurrent | exact kp_pushIgnored | exact kp_moveCurToTree _
  | exact kp_popDrop | exact kp_peekTokenN _ | exact kp_assertRecZero
  | exact kp_outOfFuel | exact kp_stuck
  | exact kp_pushErr _ (tokErr_kind _)
  | exact kh_limitErr | exact kh_bind_pure _)

syntax "kp_auto" : tactic
macro_rules | `(tactic| kp_auto) => `(tactic| repeat (first
  | (with_reducible kp_leaf)
  | (with_reducible apply_assumption)
  | (with_reducible apply kp_bind) | (with_reducible apply kp_ite) | (with_reducible apply kp_withRec)
  | (with_reducible apply kp_wrapIf)
  | (extract_lets jp
     have hjp : ∀ r, Keeps P (jp r) := by
       intro r
       dsimp (config := { zeta := false }) only [jp]
       kp_auto
     clear_value jp)
  | intro _
  | split))

theorem kp_skipIgnoredLoop : ∀ (fuel : Nat), Keeps P (skipIgnoredLoop fuel)
  | 0 => kp_outOfFuel
  | fuel + 1 => by
    have ih := kp_skipIgnoredLoop fuel
    unfold skipIgnoredLoop
    kp_auto

theorem kp_skipIgnored : Keeps P skipIgnored := by
  unfold skipIgnored
  exact kp_bind _ _ (kp_srcLen) (fun n => kp_skipIgnoredLoop (n + 3))
macro_rules | `(tactic| kp_leaf) => `(tactic| exact kp_skipIgnored)

theorem kp_withNode' {α : Type} (kind : SK) (body : PI α) (hb : Keeps P body) : Keeps P (withNode kind body) :=
  kp_withNode kind body kp_skipIgnored hb
macro_rules | `(tactic| kp_auto) => `(tactic| repeat (first
  | (with_reducible kp_leaf)
  | (with_reducible apply_assumption)
  | (with_reducible apply kp_withNode')
  | (with_reducible apply kp_bind) | (with_reducible apply kp_ite) | (with_reducible apply kp_withRec)
  | (with_reducible apply kp_wrapIf)
  | (extract_lets jp
     have hjp : ∀ r, Keeps P (jp r) := by
       intro r
       dsimp (config := { zeta := false }) only [jp]
       kp_auto
     clear_value jp)
  | intro _
  | split))

theorem kp_peek : Keeps P peek := by unfold peek; kp_auto
macro_rules | `(tactic| kp_leaf) => `(tactic| exact kp_peek)
theorem kp_peekData : Keeps P peekData := by unfold peekData; kp_auto
macro_rules | `(tactic| kp_leaf) => `(tactic| exact kp_peekData)
theorem kp_peekN (n : Nat) : Keeps P (peekN n) := by unfold peekN; kp_auto
macro_rules | `(tactic| kp_leaf) => `(tactic| exact kp_peekN _)
theorem kp_peekDataN (n : Nat) : Keeps P (peekDataN n) := by unfold peekDataN; kp_auto
macro_rules | `(tactic| kp_leaf) => `(tactic| exact kp_peekDataN _)
theorem kp_eat (k : SK) : Keeps P (eat k) := by unfold eat; kp_auto
macro_rules | `(tactic| kp_leaf) => `(tactic| exact kp_eat _)
theorem kp_bump (k : SK) : Keeps P (bump k) := by unfold bump; kp_auto
macro_rules | `(tactic| kp_leaf) => `(tactic| exact kp_bump _)
theorem kp_errAtToken (t : Tok) : Keeps P (errAtToken t) := kp_pushErr _ (tokErr_kind t)
macro_rules | `(tactic| kp_leaf) => `(tactic| exact kp_errAtToken _)
theorem kp_err : Keeps P err := by unfold err; kp_auto
macro_rules | `(tactic| kp_leaf) => `(tactic| exact kp_err)
theorem kp_errAndPop : Keeps P errAndPop := by unfold errAndPop; kp_auto
macro_rules | `(tactic| kp_leaf) => `(tactic| exact kp_errAndPop)
theorem kp_expect (t : Kind) (k : SK) : Keeps P (expect t k) := by unfold expect; kp_auto
macro_rules | `(tactic| kp_leaf) => `(tactic| exact kp_expect _ _)
theorem kp_name : Keeps P name := by unfold name; kp_auto
macro_rules | `(tactic| kp_leaf) => `(tactic| exact kp_name)

/-! ### loops -/

theorem kp_peekWhileLoop (body : Kind → PI Bool) (hb : ∀ k, Keeps P (body k)) : ∀ fuel, Keeps P (peekWhileLoop body fuel)
  | 0 => kp_outOfFuel
  | fuel + 1 => by
    have ih := kp_peekWhileLoop body hb fuel
    unfold peekWhileLoop
    kp_auto

theorem kp_peekWhile (body : Kind → PI Bool) (hb : ∀ k, Keeps P (body k)) : Keeps P (peekWhile body) :=
  kp_bind _ _ (kp_srcLen) (fun _ => kp_peekWhileLoop body hb _)

theorem kp_peekWhileKindLoop (k : Kind) (body : PI Unit) (hb : Keeps P body) : ∀ fuel, Keeps P (peekWhileKindLoop k body fuel)
  | 0 => kp_outOfFuel
  | fuel + 1 => by
    have ih := kp_peekWhileKindLoop k body hb fuel
    unfold peekWhileKindLoop
    kp_auto

theorem kp_peekWhileKind (k : Kind) (body : PI Unit) (hb : Keeps P body) : Keeps P (peekWhileKind k body) :=
  kp_bind _ _ (kp_srcLen) (fun _ => kp_peekWhileKindLoop k body hb _)

theorem kp_peekWhileFlagLoop (body : Kind → PI (Bool × Bool)) (hb : ∀ k, Keeps P (body k)) :
    ∀ fuel flag, Keeps P (peekWhileFlagLoop body fuel flag)
  | 0, _ => kp_outOfFuel
  | fuel + 1, flag => by
    have ih := kp_peekWhileFlagLoop body hb fuel
    unfold peekWhileFlagLoop
    kp_auto

theorem kp_peekWhileKindFlagLoop (k : Kind) (body : PI Unit) (hb : Keeps P body) :
    ∀ fuel flag, Keeps P (peekWhileKindFlagLoop k body fuel flag)
  | 0, _ => kp_outOfFuel
  | fuel + 1, flag => by
    have ih := kp_peekWhileKindFlagLoop k body hb fuel
    unfold peekWhileKindFlagLoop
    kp_auto

theorem kp_parseSeparatedList (sep : Kind) (syn : SK) (run : PI Unit) (hr : Keeps P run) : Keeps P (parseSeparatedList sep syn run) := by
  have hk : Keeps P (peekWhileKind sep (bump syn >>= fun _ => run)) := kp_peekWhileKind _ _ (kp_bind _ _ (kp_bump _) (fun _ => hr))
  unfold parseSeparatedList
  kp_auto

macro_rules | `(tactic| kp_auto) => `(tactic| repeat (first
  | (with_reducible kp_leaf)
  | (with_reducible apply_assumption)
  | (with_reducible apply kp_withNode')
  | (with_reducible apply kp_bind) | (with_reducible apply kp_ite) | (with_reducible apply kp_withRec)
  | (with_reducible apply kp_wrapIf)
  | (with_reducible apply kp_peekWhile) | (with_reducible apply kp_peekWhileKind)
  | (with_reducible apply kp_parseSeparatedList) | (with_reducible apply kp_peekWhileKindFlagLoop)
  | (with_reducible apply kp_peekWhileFlagLoop)
  | (extract_lets jp
     have hjp : ∀ r, Keeps P (jp r) := by
       intro r
       dsimp (config := { zeta := false }) only [jp]
       kp_auto
     clear_value jp)
  | intro _
  | split))

end Apollo.Parse
