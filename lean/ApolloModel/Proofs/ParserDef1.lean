import ApolloModel.Proofs.ParserValue9
import ApolloModel.Proofs.ParserType5
import ApolloModel.Proofs.AstDefTokens
/-
C05 growth (type-system definitions), part 1: a small calculus of "accepting runs".

`Acc E H m R`: `m` is `Good`, and every error-free run of `m` from a state whose token queue satisfies `H`
consumes tokens `cs` from the front of the queue such that, ignored tokens removed, they are grammar tokens
`x` with `R a x` (`a` the returned value) — or the run stopped early in a state satisfying `E`
(`AtEof`: an unclosed list value at the end of input, which the next closing token reports).
-/
set_option linter.unusedSimpArgs false
namespace Apollo.Parse
open Apollo.Rowan hiding Str
open Apollo.Lex hiding Str

@[reducible] def AccRes (E : PState → Prop) (s s' : PState) (L : List Ast.Tok → Prop) : Prop :=
  ∃ cs, Toks s = cs ++ Toks s' ∧ NoEof cs ∧ EofEnd s' ∧ ((∃ x, TokIs (sig cs) x ∧ L x) ∨ E s')

/-- what the calculus needs of the "stopped early" alternative -/
structure Early (E : PState → Prop) : Prop where
  carries : Carries E
  toks : ∀ s2 s', Toks s' = Toks s2 → E s2 → E s'

theorem early_atEof : Early AtEof :=
  ⟨carries_atEof, fun s2 s' h ⟨e, hh, hk⟩ => ⟨e, by rw [h]; exact hh, hk⟩⟩

theorem early_false : Early (fun _ => False) := ⟨carries_false, fun _ _ _ h => h⟩

def Acc {α : Type} (E : PState → Prop) (H : List Tok → Prop) (m : PI α) (R : α → List Ast.Tok → Prop) : Prop :=
  Good m ∧ ∀ s a s', TW s → EofEnd s → H (Toks s) → m.run s = .ok a s' → ¬ Doomed s' → AccRes E s s' (R a)

theorem Acc.good {α : Type} {E H} {m : PI α} {R} (h : Acc E H m R) : Good m := h.1

theorem Acc.mono {α : Type} {E : PState → Prop} {H H' : List Tok → Prop} {m : PI α} {R R' : α → List Ast.Tok → Prop}
    (h : Acc E H m R) (hH : ∀ q, H' q → H q) (hR : ∀ a x, R a x → R' a x) : Acc E H' m R' := by
  refine ⟨h.1, ?_⟩
  intro s a s' w he hq hr hnd
  obtain ⟨cs, a1, a2, a3, a4⟩ := h.2 s a s' w he (hH _ hq) hr hnd
  refine ⟨cs, a1, a2, a3, ?_⟩
  rcases a4 with ⟨x, hx, hr'⟩ | e
  · exact Or.inl ⟨x, hx, hR a x hr'⟩
  · exact Or.inr e

theorem acc_pure {α : Type} (E : PState → Prop) (H : List Tok → Prop) (a : α) :
    Acc E H (pure a : PI α) (fun a' x => a' = a ∧ x = []) := by
  refine ⟨good_pure a, ?_⟩
  intro s a' s' w he _ hr _
  rw [run_pure] at hr
  injection hr with h1 h2
  subst h1 h2
  exact ⟨[], rfl, (by intro x hx; cases hx), he, Or.inl ⟨[], TokIs.nil, rfl, rfl⟩⟩

theorem acc_bind {α β : Type} {E : PState → Prop} (hE : Early E) {H : List Tok → Prop} {m : PI α} {f : α → PI β}
    {R1 : α → List Ast.Tok → Prop} {R2 : α → β → List Ast.Tok → Prop}
    (h1 : Acc E H m R1) (h2 : ∀ a, Acc E (fun _ => True) (f a) (R2 a)) :
    Acc E H (m >>= f) (fun b x => ∃ a x1 x2, x = x1 ++ x2 ∧ R1 a x1 ∧ R2 a b x2) := by
  refine ⟨good_bind _ _ h1.1 (fun a => (h2 a).1), ?_⟩
  intro s b s'' w he hq hr hnd
  obtain ⟨a, s', hr1, hr2⟩ := bind_dec m f s s'' b hr
  have ad := h1.1 s a s' w hr1
  have hnd' : ¬ Doomed s' := fun d => hnd (((h2 a).1 s' b s'' ad.w hr2).doom d)
  obtain ⟨c1, t1, n1, e1, r1⟩ := h1.2 s a s' w he hq hr1 hnd'
  obtain ⟨c2, t2, n2, e2, r2⟩ := (h2 a).2 s' b s'' ad.w e1 trivial hr2 hnd
  refine ⟨c1 ++ c2, by rw [t1, t2, List.append_assoc], noEof_append n1 n2, e2, ?_⟩
  rcases r1 with ⟨x1, hx1, hr1'⟩ | ev
  · rcases r2 with ⟨x2, hx2, hr2'⟩ | ev2
    · refine Or.inl ⟨x1 ++ x2, ?_, a, x1, x2, rfl, hr1', hr2'⟩
      rw [sig_append]; exact hx1.append hx2
    · exact Or.inr ev2
  · exact Or.inr (hE.carries s' s'' c2 e1 hnd' ev t2 n2)

/-- the continuation of a bind also sees a property of the queue that the first part establishes -/
theorem acc_seq {α β : Type} {E : PState → Prop} (hE : Early E) {H : List Tok → Prop} {m : PI α} {f : α → PI β}
    {R1 : α → List Ast.Tok → Prop} {R2 : β → List Ast.Tok → Prop}
    (h1 : Acc E H m R1) (h2 : ∀ a, Acc E (fun _ => True) (f a) R2) :
    Acc E H (m >>= f) (fun b x => ∃ a x1 x2, x = x1 ++ x2 ∧ R1 a x1 ∧ R2 b x2) :=
  acc_bind hE h1 h2

theorem acc_peek {α : Type} {E : PState → Prop} {H : List Tok → Prop} {f : Option Kind → PI α} {R : α → List Ast.Tok → Prop}
    (h : ∀ k, Acc E (fun q => H q ∧ q.head?.map (·.kind) = k) (f k) R) : Acc E H (peek >>= f) R := by
  refine ⟨good_bind _ _ good_peek (fun k => (h k).1), ?_⟩
  intro s a s' w he hq hr hnd
  obtain ⟨k, sP, hp, h2⟩ := bind_dec peek f s s' a hr
  obtain ⟨o, p, hk⟩ := peek_obs s sP k w hp
  have heP : EofEnd sP := eofEnd_eat he p.eat (by intro x hx; cases hx)
  have hqP : H (Toks sP) ∧ (Toks sP).head?.map (·.kind) = k := by
    rw [p.toks]; exact ⟨hq, by rw [← p.head]; exact hk.symm⟩
  obtain ⟨cs, a1, a2, a3, a4⟩ := (h k).2 sP a s' p.w heP hqP h2 hnd
  exact ⟨cs, by rw [← p.toks]; exact a1, a2, a3, a4⟩

theorem acc_peekToken {α : Type} {E : PState → Prop} {H : List Tok → Prop} {f : Option Tok → PI α} {R : α → List Ast.Tok → Prop}
    (h : ∀ o, Acc E (fun q => H q ∧ q.head? = o) (f o) R) : Acc E H (peekToken >>= f) R := by
  refine ⟨good_bind _ _ good_peekToken (fun k => (h k).1), ?_⟩
  intro s a s' w he hq hr hnd
  obtain ⟨o, sP, hp, h2⟩ := bind_dec peekToken f s s' a hr
  have p := peekToken_obs s sP o w hp
  have heP : EofEnd sP := eofEnd_eat he p.eat (by intro x hx; cases hx)
  have hqP : H (Toks sP) ∧ (Toks sP).head? = o := by
    rw [p.toks]; exact ⟨hq, p.head.symm⟩
  obtain ⟨cs, a1, a2, a3, a4⟩ := (h o).2 sP a s' p.w heP hqP h2 hnd
  exact ⟨cs, by rw [← p.toks]; exact a1, a2, a3, a4⟩

theorem good_peekData : Good peekData := good_bind _ _ good_peekToken (fun _ => good_pure _)

theorem acc_peekData {α : Type} {E : PState → Prop} {H : List Tok → Prop} {f : Option Str → PI α} {R : α → List Ast.Tok → Prop}
    (h : ∀ o : Option Tok, Acc E (fun q => H q ∧ q.head? = o) (f (o.map (·.data))) R) : Acc E H (peekData >>= f) R := by
  refine ⟨good_bind _ _ good_peekData (fun d => ?_), ?_⟩
  · intro s a s' w hr
    -- every data value is the data of some optional token
    cases d with
    | none => exact (h none).1 s a s' w hr
    | some d => exact (h (some ⟨.name, d, 0⟩)).1 s a s' w hr
  intro s a s' w he hq hr hnd
  obtain ⟨d, sP, hp, h2⟩ := bind_dec peekData f s s' a hr
  obtain ⟨o, sQ, hp1, hp2⟩ := bind_dec peekToken _ s sP d hp
  rw [run_pure] at hp2
  injection hp2 with hd hs
  subst hs hd
  have p := peekToken_obs s sQ o w hp1
  have heP : EofEnd sQ := eofEnd_eat he p.eat (by intro x hx; cases hx)
  have hqP : H (Toks sQ) ∧ (Toks sQ).head? = o := by
    rw [p.toks]; exact ⟨hq, p.head.symm⟩
  obtain ⟨cs, a1, a2, a3, a4⟩ := (h o).2 sQ a s' p.w heP hqP h2 hnd
  exact ⟨cs, by rw [← p.toks]; exact a1, a2, a3, a4⟩

theorem acc_ite {α : Type} {E H} (c : Bool) {a b : PI α} {R : α → List Ast.Tok → Prop}
    (ha : c = true → Acc E H a R) (hb : c = false → Acc E H b R) : Acc E H (if c then a else b) R := by
  cases c
  · simpa using hb rfl
  · simpa using ha rfl

/-- a node opened when the head of the queue is known to be significant -/
theorem acc_withNode {α : Type} {E : PState → Prop} (hE : Early E) {H : List Tok → Prop} (K : SK) {body : PI α} {R : α → List Ast.Tok → Prop}
    (hsig : ∀ q, H q → ∃ t rest, q = t :: rest ∧ isIgnoredKind t.kind = false)
    (h : Acc E H body R) : Acc E H (withNode K body) R := by
  refine ⟨good_withNode K body h.1, ?_⟩
  intro s a s' w he hq hr hnd
  obtain ⟨t, rest, ht, hni⟩ := hsig _ hq
  obtain ⟨s1, s2, e1, h1, o2⟩ := withNode_peeked K body s s' a t rest w ht hni hr
  have ht1 : Toks s1 = Toks s := by have := e1.toks; simpa using this.symm
  have hnd2 : ¬ Doomed s2 := fun d => hnd (o2.doomed.mpr d)
  obtain ⟨cs, a1, a2, a3, a4⟩ := h.2 s1 a s2 e1.w (eofEnd_eat he e1 (by intro x hx; cases hx)) (by rw [ht1]; exact hq) h1 hnd2
  refine ⟨cs, by rw [← ht1, a1, o2.toks], a2, eofEnd_same _ _ a3 o2.current o2.lx o2.errors, ?_⟩
  rcases a4 with h4 | h4
  · exact Or.inl h4
  · exact Or.inr (hE.toks s2 s' o2.toks h4)

end Apollo.Parse
