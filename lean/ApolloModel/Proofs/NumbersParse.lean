import ApolloModel.Model.NumbersParse
import ApolloModel.Proofs.Numbers3
/-
C10 growth: printing an integer and parsing it back is the identity for ALL integers; `try_to_i32` of a
valid IntValue text fails exactly when its value lies outside `i32`.
-/
namespace Apollo.Num
open Apollo

theorem digitVal_digitChar {d : Nat} (h : d < 10) : digitVal (digitChar d) = d := by
  have : d = 0 ∨ d = 1 ∨ d = 2 ∨ d = 3 ∨ d = 4 ∨ d = 5 ∨ d = 6 ∨ d = 7 ∨ d = 8 ∨ d = 9 := by omega
  rcases this with rfl | rfl | rfl | rfl | rfl | rfl | rfl | rfl | rfl | rfl <;> decide

theorem parseNat_append_single (s : Str) (c : Char) : parseNat (s ++ [c]) = parseNat s * 10 + digitVal c := by
  simp [parseNat, List.foldl_append]

/-- parsing the decimal digits of `n` gives `n` back, for every natural number -/
theorem parseNat_natDigits (n : Nat) : parseNat (natDigits n) = n := by
  induction n using Nat.strongRecOn with
  | _ n ih =>
    by_cases h : n < 10
    · rw [natDigits_lt h]
      simp [parseNat, digitVal_digitChar h]
    · rw [natDigits_ge h, parseNat_append_single, ih (n / 10) (by omega),
        digitVal_digitChar (Nat.mod_lt n (by omega))]
      omega

theorem natDigits_digitsOk (n : Nat) : digitsOk (natDigits n) = true := by
  obtain ⟨d, rest, e, hr, hcase⟩ := natDigits_shape n
  have hd : isAsciiDigit d = true := by
    rcases hcase with ⟨_, _, hd⟩ | ⟨_, hnz⟩
    · exact hd
    · exact nonzero_is_digit hnz
  rw [e]
  simp only [digitsOk, List.isEmpty_cons, Bool.not_false, Bool.true_and, allDigits, List.all_cons, hd]
  exact hr

theorem natDigits_head (n : Nat) : ∃ d rest, natDigits n = d :: rest ∧ d ≠ '-' ∧ d ≠ '+' := by
  obtain ⟨d, rest, e, _, hcase⟩ := natDigits_shape n
  have hd : isAsciiDigit d = true := by
    rcases hcase with ⟨_, _, hd⟩ | ⟨_, hnz⟩
    · exact hd
    · exact nonzero_is_digit hnz
  exact ⟨d, rest, e, (digit_ne hd).1, (digit_ne hd).2.1⟩

/-- **print then parse is the identity, for every integer** -/
theorem parseDec_intToString (i : Int) : parseDec (intToString i) = some i := by
  unfold intToString
  by_cases hneg : i < 0
  · simp only [hneg, if_true, parseDec, natDigits_digitsOk, parseNat_natDigits]
    congr 1
    omega
  · simp only [hneg, if_false]
    obtain ⟨d, rest, e, h1, h2⟩ := natDigits_head i.natAbs
    have hok := natDigits_digitsOk i.natAbs
    have hval := parseNat_natDigits i.natAbs
    rw [e] at hok hval ⊢
    have : parseDec (d :: rest) = if digitsOk (d :: rest) then some (parseNat (d :: rest) : Int) else none := by
      unfold parseDec
      split
      · rename_i r heq; simp only [List.cons.injEq] at heq; exact absurd heq.1 h1
      · rename_i r heq; simp only [List.cons.injEq] at heq; exact absurd heq.1 h2
      · rfl
    rw [this, hok, hval]
    simp only [if_true]
    congr 1
    omega

/-- every `i32` survives `From<i32>` followed by `try_to_i32` -/
theorem tryToI32_intToString (i : Int) (h : inI32 i = true) : tryToI32 (intToString i) = some i := by
  simp [tryToI32, parseDec_intToString, Option.filter, h]

/-- a valid IntValue text always has a decimal value … -/
theorem parseDec_of_validInt (s : Str) (h : validInt s = true) : ∃ v, parseDec s = some v := by
  unfold validInt at h
  have hu := (validUnsigned_iff _).mp h
  have hok : digitsOk (stripMinus s) = true := by
    rcases hu with h0 | ⟨d, rest, e, hd, hr⟩
    · rw [h0]; decide
    · rw [e]
      simp only [digitsOk, List.isEmpty_cons, Bool.not_false, Bool.true_and, allDigits, List.all_cons,
        nonzero_is_digit hd]
      exact hr
  cases s with
  | nil => simp [stripMinus, digitsOk] at hok
  | cons c r =>
    by_cases h1 : c = '-'
    · subst h1
      have hr : digitsOk r = true := by simpa [stripMinus] using hok
      exact ⟨-(parseNat r : Int), by simp [parseDec, hr]⟩
    · have hs : stripMinus (c :: r) = c :: r := by
        unfold stripMinus; split
        · rename_i r' heq; simp only [List.cons.injEq] at heq; exact absurd heq.1 h1
        · rfl
      rw [hs] at hok
      by_cases h2 : c = '+'
      · subst h2
        have : isAsciiDigit '+' = true := by
          simp only [digitsOk, List.isEmpty_cons, Bool.not_false, Bool.true_and, allDigits, List.all_cons,
            Bool.and_eq_true] at hok
          exact hok.1
        exact absurd this (by decide)
      · refine ⟨(parseNat (c :: r) : Int), ?_⟩
        unfold parseDec
        split
        · rename_i r' heq; simp only [List.cons.injEq] at heq; exact absurd heq.1 h1
        · rename_i r' heq; simp only [List.cons.injEq] at heq; exact absurd heq.1 h2
        · simp [hok]

/-- … and `try_to_i32` fails exactly when that value is outside `i32` (overflow is the only error) -/
theorem tryToI32_of_validInt (s : Str) (h : validInt s = true) :
    ∃ v, parseDec s = some v ∧ (tryToI32 s = none ↔ inI32 v = false) ∧ (inI32 v = true → tryToI32 s = some v) := by
  obtain ⟨v, hv⟩ := parseDec_of_validInt s h
  refine ⟨v, hv, ?_, ?_⟩
  · cases hr : inI32 v <;> simp [tryToI32, hv, Option.filter, hr]
  · intro hr; simp [tryToI32, hv, Option.filter, hr]

end Apollo.Num
