import ApolloModel.Proofs.AstValues
/-
Round trip of arguments, directives and selection sets through the reference parser.
-/
namespace Apollo.Ast

/-! ### arguments -/

def tArgItems : List (Str × Value) → List Tok
  | [] => []
  | a :: r => .name a.1 :: .p .colon :: tValue a.2 ++ tArgItems r

def tArguments (args : List (Str × Value)) : List Tok :=
  if args.isEmpty then [] else .p .lParen :: tArgItems args ++ [.p .rParen]

theorem toksAll_cArgument (args : List (Str × Value)) : toksAll (args.map cArgument) = tArgItems args := by
  induction args with
  | nil => rfl
  | cons a r ih => simp [cArgument, tArgItems, toksOf_cValue, ih]

theorem toksOf_cArguments (args : List (Str × Value)) : toksOf (cArguments args) = tArguments args := by
  unfold cArguments tArguments
  split
  · rfl
  · simp [toksOf_commaSeparated, toksAll_cArgument]

def wfArgs : List (Str × Value) → Bool
  | [] => true
  | a :: r => wfValue a.2 && wfArgs r

def szArgs : List (Str × Value) → Nat
  | [] => 1
  | a :: r => szValue a.2 + szArgs r + 1

theorem argsTail_roundtrip : ∀ (args : List (Str × Value)) (f : Nat) (rest : List Tok), wfArgs args = true →
    szArgs args ≤ f → pArgsTail f (tArgItems args ++ .p .rParen :: rest) = some (args, rest)
  | [], f + 1, rest, _, _ => by simp [tArgItems, pArgsTail]
  | a :: r, f + 1, rest, h, hs => by
      simp [wfArgs] at h
      simp [szArgs] at hs
      have hv := value_roundtrip a.2 f (tArgItems r ++ .p .rParen :: rest) h.1 (by omega)
      have htl := argsTail_roundtrip r f rest h.2 (by omega)
      simp [tArgItems, pArgsTail, hv, htl]
  | [], 0, _, _, hs | _ :: _, 0, _, _, hs => by simp [szArgs] at hs

/-- the token after an optional `( … )` group that is absent must not be `(` -/
def notLParen (ts : List Tok) : Prop := ts.head? ≠ some (.p .lParen)

theorem pArguments_none (f : Nat) (rest : List Tok) (h : notLParen rest) : pArguments f rest = some ([], rest) := by
  unfold notLParen at h
  cases rest with
  | nil => rfl
  | cons a r =>
    simp only [List.head?_cons, ne_eq, Option.some.injEq] at h
    cases a with
    | p k => cases k <;> first | exact absurd rfl h | rfl
    | _ => rfl

theorem arguments_roundtrip (args : List (Str × Value)) (f : Nat) (rest : List Tok) (h : wfArgs args = true)
    (hs : szArgs args ≤ f) (hr : notLParen rest) : pArguments f (tArguments args ++ rest) = some (args, rest) := by
  cases args with
  | nil => simpa [tArguments] using pArguments_none f rest hr
  | cons a r =>
    have := argsTail_roundtrip (a :: r) f rest h hs
    simp [tArguments, pArguments, this]

/-! ### directives -/

def tDirectives : List Directive → List Tok
  | [] => []
  | d :: r => .p .at :: .name d.name :: tArguments d.args ++ tDirectives r

theorem cDirectives_cons (d : Directive) (r : List Directive) :
    cDirectives (d :: r) = sp :: cDirective d ++ cDirectives r := by
  simp [cDirectives]

theorem toksOf_cDirectives (ds : List Directive) : toksOf (cDirectives ds) = tDirectives ds := by
  induction ds with
  | nil => rfl
  | cons d r ih => simp [cDirectives_cons, cDirective, toksOf_cArguments, tDirectives, ih]

def wfDirs : List Directive → Bool
  | [] => true
  | d :: r => wfArgs d.args && wfDirs r

def szDirs : List Directive → Nat
  | [] => 1
  | d :: r => szArgs d.args + szDirs r + 1

/-- what may follow a directive list: neither `@` (another directive) nor `(` (arguments of the last one) -/
def dirFollow (ts : List Tok) : Prop := ts.head? ≠ some (.p .at) ∧ ts.head? ≠ some (.p .lParen)

theorem pDirectives_none (f : Nat) (rest : List Tok) (h : rest.head? ≠ some (.p .at)) :
    pDirectives (f + 1) rest = some ([], rest) := by
  cases rest with
  | nil => simp [pDirectives]
  | cons a r =>
    simp only [List.head?_cons, ne_eq, Option.some.injEq] at h
    cases a with
    | p k => cases k <;> first | exact absurd rfl h | simp [pDirectives]
    | _ => simp [pDirectives]

theorem tDirectives_head (ds : List Directive) (rest : List Tok) (h : dirFollow rest) :
    notLParen (tDirectives ds ++ rest) := by
  cases ds with
  | nil => simpa [tDirectives, notLParen] using h.2
  | cons d r => simp [tDirectives, notLParen]

theorem directives_roundtrip : ∀ (ds : List Directive) (f : Nat) (rest : List Tok), wfDirs ds = true →
    szDirs ds ≤ f → dirFollow rest → pDirectives f (tDirectives ds ++ rest) = some (ds, rest)
  | [], f + 1, rest, _, _, hr => by simpa [tDirectives] using pDirectives_none f rest hr.1
  | d :: r, f + 1, rest, h, hs, hr => by
      simp [wfDirs] at h
      simp [szDirs] at hs
      have ha := arguments_roundtrip d.args f (tDirectives r ++ rest) h.1 (by omega) (tDirectives_head r rest hr)
      have htl := directives_roundtrip r f rest h.2 (by omega) hr
      simp only [tDirectives, List.cons_append, List.append_assoc]
      simp [pDirectives, ha, htl]
  | [], 0, _, _, hs, _ | _ :: _, 0, _, _, hs, _ => by simp [szDirs] at hs

/-! ### selection sets -/

mutual
def tSel : Sel → List Tok
  | .field alias name args dirs sels =>
    (match alias with | some a => [.name a, .p .colon] | none => [])
      ++ .name name :: tArguments args ++ tDirectives dirs
      ++ tSubSels sels
  | .spread name dirs => .p .spread :: .name name :: tDirectives dirs
  | .inline tc dirs sels =>
    (match tc with | some t => [.p .spread, .name sOn, .name t] | none => [.p .spread])
      ++ tDirectives dirs ++ .p .lCurly :: tSels sels ++ [.p .rCurly]
def tSels : Sels → List Tok
  | .nil => []
  | .cons s tl => tSel s ++ tSels tl
/-- the optional `{ … }` of a field: absent when the field has no sub-selections -/
def tSubSels : Sels → List Tok
  | .nil => []
  | .cons s tl => .p .lCurly :: (tSel s ++ tSels tl) ++ [.p .rCurly]
end

theorem tSubSels_cons (s : Sel) (tl : Sels) : tSubSels (.cons s tl) = .p .lCurly :: tSels (.cons s tl) ++ [.p .rCurly] := by
  simp [tSubSels, tSels]

mutual
theorem toksOf_cSel : ∀ s : Sel, toksOf (cSel s) = tSel s
  | .field alias name args dirs sels => by
      have := toksAll_cSels sels
      cases alias <;> cases sels <;>
        simp_all [cSel, tSel, toksOf_cArguments, toksOf_cDirectives, toksOf_curly, tSels, cSels, tSubSels]
  | .spread name dirs => by simp [cSel, tSel, toksOf_cDirectives]
  | .inline tc dirs sels => by
      have := toksAll_cSels sels
      cases tc <;> simp_all [cSel, tSel, toksOf_cDirectives, toksOf_curly, sOn]
theorem toksAll_cSels : ∀ ss : Sels, toksAll (cSels ss) = tSels ss
  | .nil => rfl
  | .cons s tl => by simp [cSels, tSels, toksOf_cSel s, toksAll_cSels tl]
end

mutual
/-- spreads are not named `on`; inline fragments have a non-empty selection set; values as in `wfValue` -/
def wfSel : Sel → Bool
  | .field _ _ args dirs sels => wfArgs args && wfDirs dirs && wfSels sels
  | .spread name dirs => name != sOn && wfDirs dirs
  | .inline _ dirs sels => wfDirs dirs && wfSels sels && (match sels with | .nil => false | _ => true)
def wfSels : Sels → Bool
  | .nil => true
  | .cons s tl => wfSel s && wfSels tl
end

mutual
def szSel : Sel → Nat
  | .field _ _ args dirs sels => szArgs args + szDirs dirs + szSels sels + 3
  | .spread _ dirs => szDirs dirs + 2
  | .inline _ dirs sels => szDirs dirs + szSels sels + 3
def szSels : Sels → Nat
  | .nil => 1
  | .cons s tl => szSel s + szSels tl + 2
end

/-- what may follow a selection inside a selection set: another selection or the closing brace -/
def selFollow : List Tok → Bool
  | .name _ :: _ => true
  | .p .spread :: _ => true
  | .p .rCurly :: _ => true
  | _ => false

theorem selFollow_dirFollow {ts : List Tok} (h : selFollow ts = true) : dirFollow ts := by
  unfold dirFollow
  cases ts with
  | nil => simp
  | cons a r => cases a with
    | p k => cases k <;> simp_all [selFollow]
    | _ => simp

theorem selFollow_notLCurly {ts : List Tok} (h : selFollow ts = true) : ts.head? ≠ some (.p .lCurly) := by
  cases ts with
  | nil => simp
  | cons a r => cases a with
    | p k => cases k <;> simp_all [selFollow]
    | _ => simp

theorem tSel_selFollow (s : Sel) (r : List Tok) : selFollow (tSel s ++ r) = true := by
  cases s with
  | field alias name args dirs sels => cases alias <;> simp [tSel, selFollow]
  | spread name dirs => simp [tSel, selFollow]
  | inline tc dirs sels => cases tc <;> simp [tSel, selFollow]

theorem tSels_selFollow (ss : Sels) (rest : List Tok) : selFollow (tSels ss ++ .p .rCurly :: rest) = true := by
  cases ss with
  | nil => simp [tSels, selFollow]
  | cons s tl => simp only [tSels, List.append_assoc]; exact tSel_selFollow s _

/-- `pDirectives` followed by the decision "is the next token `{`": the two outcomes of
    `match pDirectives f r with | some (ds, .p .lCurly :: r1) => A | some (ds, r1) => B | none => none` -/
theorem pSelsTail_cons (f : Nat) (s : Sel) (ts r1 : List Tok) (ss : Sels) (r2 : List Tok)
    (hh : ts.head? ≠ some (.p .rCurly)) (h1 : pSel f ts = some (s, r1)) (h2 : pSelsTail f r1 = some (ss, r2)) :
    pSelsTail (f + 1) ts = some (.cons s ss, r2) := by
  cases ts with
  | nil => simp [pSelsTail, h1, h2]
  | cons a r =>
    simp only [List.head?_cons, ne_eq, Option.some.injEq] at hh
    cases a with
    | p k => cases k <;> first | exact absurd rfl hh | simp [pSelsTail, h1, h2]
    | _ => simp [pSelsTail, h1, h2]

theorem tSel_head_ne_rCurly (s : Sel) (r : List Tok) : (tSel s ++ r).head? ≠ some (.p .rCurly) := by
  cases s with
  | field alias name args dirs sels => cases alias <;> simp [tSel]
  | spread name dirs => simp [tSel]
  | inline tc dirs sels => cases tc <;> simp [tSel]

/-- field tail: no selection set -/
theorem pFieldRest_leaf (f : Nat) (alias : Option Str) (n : Str) (ts : List Tok) (as : List (Str × Value))
    (r1 : List Tok) (ds : List Directive) (r2 : List Tok) (ha : pArguments f ts = some (as, r1))
    (hd : pDirectives f r1 = some (ds, r2)) (hr : r2.head? ≠ some (.p .lCurly)) :
    pFieldRest (f + 1) alias n ts = some (.field alias n as ds .nil, r2) := by
  cases r2 with
  | nil => simp [pFieldRest, ha, hd]
  | cons a r =>
    simp only [List.head?_cons, ne_eq, Option.some.injEq] at hr
    cases a with
    | p k => cases k <;> first | exact absurd rfl hr | simp [pFieldRest, ha, hd]
    | _ => simp [pFieldRest, ha, hd]

/-- a field without alias: the token after its name is `(`, `@`, `{` or the follow token, never `:` -/
theorem pSel_field_noalias (f : Nat) (name : Str) (X : List Tok) (h : X.head? ≠ some (.p .colon)) :
    pSel (f + 1) (.name name :: X) = pFieldRest f none name X := by
  cases X with
  | nil => simp [pSel]
  | cons a r =>
    simp only [List.head?_cons, ne_eq, Option.some.injEq] at h
    cases a with
    | p k => cases k <;> first | exact absurd rfl h | simp [pSel]
    | _ => simp [pSel]

theorem fieldTail_head_ne_colon (args : List (Str × Value)) (dirs : List Directive) (sels : Sels) (rest : List Tok)
    (hr : selFollow rest = true) :
    (tArguments args ++ (tDirectives dirs ++ (tSubSels sels ++ rest))).head? ≠ some (.p .colon) := by
  cases args with
  | cons a r => simp [tArguments]
  | nil =>
    cases dirs with
    | cons d r => simp [tArguments, tDirectives]
    | nil =>
      cases sels with
      | cons s tl => simp [tArguments, tDirectives, tSubSels]
      | nil =>
        simp only [tArguments, tDirectives, tSubSels, List.isEmpty_nil, List.nil_append, if_true]
        cases rest with
        | nil => simp
        | cons a r => cases a with
          | p k => cases k <;> simp_all [selFollow]
          | _ => simp

mutual
theorem sel_roundtrip : ∀ (s : Sel) (f : Nat) (rest : List Tok), wfSel s = true → szSel s ≤ f →
    selFollow rest = true → pSel f (tSel s ++ rest) = some (s, rest)
  | .field alias name args dirs sels, f + 1, rest, h, hs, hr => by
      have hfr := fieldRest_roundtrip alias name args dirs sels f rest
        (by simpa [wfSel] using h) (by simp [szSel] at hs; omega) hr
      cases alias with
      | none =>
        simp only [tSel, List.nil_append, List.cons_append, List.append_assoc] at hfr ⊢
        rw [pSel_field_noalias f name _ (fieldTail_head_ne_colon args dirs sels rest hr)]
        exact hfr
      | some a =>
        simp only [tSel, List.cons_append, List.nil_append, List.append_assoc] at hfr ⊢
        simpa [pSel] using hfr
  | .spread name dirs, f + 1, rest, h, hs, hr => by
      simp [wfSel] at h
      have hd := directives_roundtrip dirs f rest h.2 (by simp [szSel] at hs; omega) (selFollow_dirFollow hr)
      simp [tSel, pSel, h.1, hd]
  | .inline tc dirs sels, f + 1, rest, h, hs, hr => by
      simp only [wfSel, Bool.and_eq_true] at h
      have hne : sels ≠ .nil := by intro e; subst e; simp at h
      have hd := directives_roundtrip dirs f (.p .lCurly :: (tSels sels ++ .p .rCurly :: rest)) h.1.1
        (by simp [szSel] at hs; omega) (by simp [dirFollow])
      have hss := selsNE_roundtrip sels f rest hne h.1.2 (by simp [szSel] at hs; omega)
      cases tc with
      | some t =>
        simp only [tSel, List.cons_append, List.nil_append, List.append_assoc] at hd ⊢
        simp [pSel, sOn, hd, hss]
      | none =>
        simp only [tSel, List.cons_append, List.nil_append, List.append_assoc] at hd ⊢
        -- after `...` comes `@` or `{`: not a name
        cases dirs with
        | nil => simp only [tDirectives, List.nil_append] at hd ⊢; simp [pSel, hd, hss]
        | cons d r => simp only [tDirectives, List.cons_append, List.append_assoc] at hd ⊢; simp [pSel, hd, hss]
  | .field _ _ _ _ _, 0, _, _, hs, _ | .spread _ _, 0, _, _, hs, _ | .inline _ _ _, 0, _, _, hs, _ => by
      simp [szSel] at hs
theorem fieldRest_roundtrip : ∀ (alias : Option Str) (name : Str) (args : List (Str × Value)) (dirs : List Directive)
    (sels : Sels) (f : Nat) (rest : List Tok), (wfArgs args && wfDirs dirs && wfSels sels) = true →
    szArgs args + szDirs dirs + szSels sels + 2 ≤ f → selFollow rest = true →
    pFieldRest f alias name (tArguments args ++ tDirectives dirs ++ tSubSels sels ++ rest)
      = some (.field alias name args dirs sels, rest)
  | alias, name, args, dirs, .nil, f + 1, rest, h, hs, hr => by
      simp only [Bool.and_eq_true] at h
      have ha := arguments_roundtrip args f (tDirectives dirs ++ rest) h.1.1 (by omega)
        (tDirectives_head dirs rest (selFollow_dirFollow hr))
      have hd := directives_roundtrip dirs f rest h.1.2 (by omega) (selFollow_dirFollow hr)
      simp only [tSubSels, List.append_nil, List.append_assoc]
      exact pFieldRest_leaf f alias name _ _ _ _ _ ha hd (selFollow_notLCurly hr)
  | alias, name, args, dirs, .cons s tl, f + 1, rest, h, hs, hr => by
      simp only [Bool.and_eq_true] at h
      have hfollow : dirFollow (.p .lCurly :: (tSels (.cons s tl) ++ .p .rCurly :: rest)) := by simp [dirFollow]
      have ha := arguments_roundtrip args f (tDirectives dirs ++ .p .lCurly :: (tSels (.cons s tl) ++ .p .rCurly :: rest))
        h.1.1 (by omega) (tDirectives_head dirs _ hfollow)
      have hd := directives_roundtrip dirs f _ h.1.2 (by omega) hfollow
      have hss := selsNE_roundtrip (.cons s tl) f rest (by simp) h.2 (by omega)
      rw [tSubSels_cons]
      simp only [List.append_assoc, List.cons_append, List.nil_append] at ha ⊢
      simp [pFieldRest, ha, hd, hss]
  | _, _, _, _, _, 0, _, _, hs, _ => by omega
theorem selsNE_roundtrip : ∀ (ss : Sels) (f : Nat) (rest : List Tok), ss ≠ .nil → wfSels ss = true → szSels ss ≤ f →
    pSelsNE f (tSels ss ++ .p .rCurly :: rest) = some (ss, rest)
  | .cons s tl, f + 1, rest, _, h, hs => by
      simp [wfSels] at h
      simp [szSels] at hs
      have h1 := sel_roundtrip s f (tSels tl ++ .p .rCurly :: rest) h.1 (by omega) (tSels_selFollow tl rest)
      have h2 := selsTail_roundtrip tl f rest h.2 (by omega)
      simp only [tSels, List.append_assoc]
      simp [pSelsNE, h1, h2]
  | .nil, _, _, hne, _, _ => absurd rfl hne
  | .cons _ _, 0, _, _, _, hs => by simp [szSels] at hs
theorem selsTail_roundtrip : ∀ (ss : Sels) (f : Nat) (rest : List Tok), wfSels ss = true → szSels ss ≤ f →
    pSelsTail f (tSels ss ++ .p .rCurly :: rest) = some (ss, rest)
  | .nil, f + 1, rest, _, _ => by simp [tSels, pSelsTail]
  | .cons s tl, f + 1, rest, h, hs => by
      simp [wfSels] at h
      simp [szSels] at hs
      have h1 := sel_roundtrip s f (tSels tl ++ .p .rCurly :: rest) h.1 (by omega) (tSels_selFollow tl rest)
      have h2 := selsTail_roundtrip tl f rest h.2 (by omega)
      simp only [tSels, List.append_assoc]
      exact pSelsTail_cons f s _ _ tl rest (tSel_head_ne_rCurly s _) h1 h2
  | .nil, 0, _, _, hs | .cons _ _, 0, _, _, hs => by simp [szSels] at hs
end

end Apollo.Ast
