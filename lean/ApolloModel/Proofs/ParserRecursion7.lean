import ApolloModel.Proofs.ParserRecursion6
/-
C04 growth (recursion limit across runs), part 7: every primitive of parser/mod.rs used by value.rs is
`Plain`; `withNode` keeps `Plain`.
-/
set_option linter.unusedSimpArgs false
set_option linter.unusedVariables false
namespace Apollo.Parse
open Apollo.Rowan hiding Str
open Apollo.Lex hiding Str

theorem plain_moveCurToPending : Plain moveCurToPending := by
  refine ⟨?_, ?_⟩
  · intro s L
    unfold moveCurToPending
    simp only []
    have hc : (setL L s).current = s.current := rfl
    rw [hc]
    cases s.current with
    | none => rfl
    | some t => simp only []; split <;> rfl
  · intro s b s' h
    unfold moveCurToPending at h
    simp only [] at h
    cases hc : s.current with
    | none => simp only [hc] at h; injection h with _ h; subst h; exact PlainOut.refl s
    | some t =>
      simp only [hc] at h
      split at h
      · injection h with _ h; subst h
        exact ⟨rfl, rfl, rfl, fun h => h, fun g => ⟨g.lim, g.acc, fun _ t' ht => by cases ht⟩⟩
      · injection h with _ h; subst h; exact PlainOut.refl s

theorem plain_srcLen : Plain srcLen :=
  ⟨fun s L => rfl, fun s a s' h => by unfold srcLen at h; simp only [] at h; injection h with _ h; subst h; exact PlainOut.refl s⟩

theorem plain_getCurrent : Plain getCurrent :=
  ⟨fun s L => rfl, fun s a s' h => by unfold getCurrent at h; simp only [] at h; injection h with _ h; subst h; exact PlainOut.refl s⟩

theorem plain_skipIgnoredLoop : ∀ (fuel : Nat), Plain (skipIgnoredLoop fuel)
  | 0 => plain_outOfFuel
  | fuel + 1 => by
    unfold skipIgnoredLoop
    refine plain_bind _ _ plain_peekToken (fun _ => plain_bind _ _ plain_moveCurToPending (fun b => ?_))
    cases b with
    | true => exact plain_skipIgnoredLoop fuel
    | false => exact plain_pure _

theorem plain_skipIgnored : Plain skipIgnored := by
  unfold skipIgnored
  exact plain_bind _ _ plain_srcLen (fun n => plain_skipIgnoredLoop (n + 3))

theorem plain_pushIgnored : Plain pushIgnored :=
  ⟨fun s L => rfl, fun s a s' h => by
    unfold pushIgnored at h; simp only [] at h; injection h with _ h; subst h
    exact ⟨rfl, rfl, rfl, fun h => h, fun g => ⟨g.lim, g.acc, g.nf⟩⟩⟩

theorem plain_moveCurToTree (kind : SK) : Plain (moveCurToTree kind) := by
  refine ⟨?_, ?_⟩
  · intro s L
    unfold moveCurToTree
    simp only []
    have hc : (setL L s).current = s.current := rfl
    rw [hc]
    cases s.current <;> rfl
  · intro s a s' h
    unfold moveCurToTree at h
    simp only [] at h
    cases hc : s.current with
    | none => simp only [hc] at h; injection h with _ h; subst h; exact PlainOut.refl s
    | some t =>
      simp only [hc] at h; injection h with _ h; subst h
      exact ⟨rfl, rfl, rfl, fun h => h, fun g => ⟨g.lim, g.acc, fun _ t' ht => by cases ht⟩⟩

theorem plain_eat (kind : SK) : Plain (eat kind) := by
  unfold eat
  exact plain_bind _ _ plain_pushIgnored (fun _ => plain_bind _ _ plain_peekToken (fun _ => plain_moveCurToTree kind))

theorem plain_bump (kind : SK) : Plain (bump kind) := by
  unfold bump
  exact plain_bind _ _ (plain_eat kind) (fun _ => plain_skipIgnored)

theorem plain_pushErr (e : PErr) : Plain (pushErr e) := by
  refine ⟨fun s L => rfl, ?_⟩
  intro s a s' h
  unfold pushErr errUpdate at h
  simp only [] at h
  injection h with _ h
  subst h
  have mono : HasLim s.errors → HasLim (if s.acceptErrors = true then s.errors ++ [e] else s.errors) := by
    intro hl
    split
    · exact (hasLim_append _ _).mpr (Or.inl hl)
    · exact hl
  exact ⟨rfl, rfl, rfl, mono, fun g => ⟨g.lim, fun ha => mono (g.acc ha), g.nf⟩⟩

theorem plain_err : Plain err := by
  unfold err
  refine plain_bind _ _ plain_peekToken (fun o => ?_)
  cases o with
  | none => exact plain_pure _
  | some t => exact plain_pushErr _

/-- `limit_err` does not look at the recursion limit either; it keeps `GI` because it only stops accepting
    errors when it has a limit error on record -/
theorem plain_limitErr : Plain limitErr := by
  unfold limitErr
  refine plain_bind _ _ plain_peekToken (fun o => ?_)
  cases o with
  | none => exact plain_pure _
  | some t =>
    refine ⟨fun s L => rfl, ?_⟩
    intro s a s' h
    simp only [] at h
    unfold errUpdate at h
    simp only [] at h
    injection h with _ h
    subst h
    have mono : HasLim s.errors → HasLim (if s.acceptErrors = true then s.errors ++ [⟨t.index, 0, .limit⟩] else s.errors) := by
      intro hl
      split
      · exact (hasLim_append _ _).mpr (Or.inl hl)
      · exact hl
    refine ⟨rfl, rfl, rfl, mono, fun g => ⟨g.lim, fun _ => ?_, g.nf⟩⟩
    simp only []
    by_cases ha : s.acceptErrors = true
    · simp only [ha, if_true]
      exact (hasLim_append _ _).mpr (Or.inr ((hasLim_single _).mpr rfl))
    · have ha' : s.acceptErrors = false := by simpa using ha
      simp only [ha', Bool.false_eq_true, if_false]
      exact g.acc ha'

/-- with a current token, `limit_err` leaves a limit error on record -/
theorem limitErr_records (s s' : PState) (g : GI s) (hc : s.current.isSome = true) (h : limitErr.run s = .ok () s') :
    HasLim s'.errors := by
  unfold limitErr at h
  obtain ⟨o, s1, h1, h2⟩ := bind_dec peekToken _ s s' () h
  unfold peekToken at h1
  simp only [] at h1
  cases hcur : s.current with
  | none => rw [hcur] at hc; cases hc
  | some t =>
    simp only [hcur, Res.ok.injEq] at h1
    obtain ⟨rfl, rfl⟩ := h1
    simp only [] at h2
    unfold errUpdate at h2
    simp only [] at h2
    injection h2 with _ h2
    subst h2
    simp only []
    by_cases ha : s.acceptErrors = true
    · simp only [ha, if_true]
      exact (hasLim_append _ _).mpr (Or.inr ((hasLim_single _).mpr rfl))
    · have ha' : s.acceptErrors = false := by simpa using ha
      simp only [ha', Bool.false_eq_true, if_false]
      exact g.acc ha'

theorem plain_errAndPop : Plain errAndPop := by
  unfold errAndPop
  refine plain_bind _ _ plain_pushIgnored (fun _ => plain_bind _ _ plain_peekToken (fun o => ?_))
  cases o with
  | none => exact plain_pure _
  | some t =>
    exact plain_bind _ _ (plain_moveCurToTree _) (fun _ => plain_bind _ _ (plain_pushErr _) (fun _ => plain_skipIgnored))

theorem plain_expect (token : Kind) (kind : SK) : Plain (expect token kind) := by
  unfold expect
  refine plain_bind _ _ plain_peekToken (fun o => ?_)
  cases o with
  | none => exact plain_pure _
  | some t =>
    simp only []
    split
    · exact plain_bump kind
    · exact plain_pushErr _

/-! ### `start_node` guard -/

def wnPre (kind : SK) (s : PState) : PState :=
  rawStartNode kind { s with builder := { s.builder with children := s.builder.children ++ s.pending.map pendingElem }, pending := [] }

theorem withNode_run {α : Type} (kind : SK) (body : PI α) (s : PState) :
    (withNode kind body).run s =
      match (skipIgnored >>= fun _ => body).run (wnPre kind s) with
      | .ok a s2 =>
        match s2.builder.finishNode with
        | some b => .ok a { s2 with builder := b }
        | none => .panic "finish_node: no open node"
      | .abort w => .abort w
      | .panic m => .panic m := rfl

theorem plain_withNode {α : Type} (kind : SK) (body : PI α) (hb : Plain body) : Plain (withNode kind body) := by
  have hin := plain_bind _ _ plain_skipIgnored (fun _ => hb)
  refine ⟨?_, ?_⟩
  · intro s L
    rw [withNode_run, withNode_run]
    have : wnPre kind (setL L s) = setL L (wnPre kind s) := rfl
    rw [this, hin.blind]
    cases (skipIgnored >>= fun _ => body).run (wnPre kind s) with
    | ok a s2 =>
      simp only [Res.mapS]
      have hb2 : (setL L s2).builder = s2.builder := rfl
      rw [hb2]
      cases s2.builder.finishNode <;> rfl
    | abort w => rfl
    | panic m => rfl
  · intro s a s' h
    rw [withNode_run] at h
    cases hr : (skipIgnored >>= fun _ => body).run (wnPre kind s) with
    | abort w => rw [hr] at h; cases h
    | panic m => rw [hr] at h; cases h
    | ok a2 s2 =>
      rw [hr] at h
      simp only [] at h
      cases hf : s2.builder.finishNode with
      | none => rw [hf] at h; cases h
      | some b =>
        rw [hf] at h
        injection h with h1 h2
        subst h1 h2
        have o := hin.out (wnPre kind s) a2 s2 hr
        exact ⟨o.recHigh, o.recCur, o.recLimit, o.lim, fun g => by
          have g2 := o.gi ⟨g.lim, g.acc, g.nf⟩
          exact ⟨g2.lim, g2.acc, g2.nf⟩⟩

theorem plain_name : Plain name := by
  unfold name
  refine plain_bind _ _ plain_peekToken (fun o => ?_)
  cases o with
  | none => exact plain_err
  | some t =>
    simp only []
    split
    · exact plain_withNode _ _ (plain_bump _)
    · exact plain_err

theorem plain_variableNode : Plain variableNode := by
  unfold variableNode
  exact plain_withNode _ _ (plain_bind _ _ (plain_bump _) (fun _ => plain_name))

theorem plain_enumValue : Plain enumValue := by
  unfold enumValue
  refine plain_withNode _ _ (plain_bind _ _ plain_peekToken (fun o => ?_))
  cases o with
  | none => exact plain_err
  | some t =>
    simp only []
    split
    · split
      · exact plain_bind _ _ plain_err (fun _ => plain_name)
      · exact plain_name
    · exact plain_err

end Apollo.Parse
