import ApolloModel.Proofs.ParserDef2
/-
C05 growth (type-system definitions), part 3: loops — items selected by a predicate on the token kind
(`peek_while`), items of one kind (`peek_while_kind`), `parse_separated_list`.
-/
set_option linter.unusedSimpArgs false
namespace Apollo.Parse
open Apollo.Rowan hiding Str
open Apollo.Lex hiding Str

/-- the closure of the `peek_while` loops over definitions: continue with an item while the kind fits -/
def itemsBody (p : Kind → Bool) (item : PI Unit) (kind : Kind) : PI Bool :=
  if p kind then (item >>= fun _ => pure true) else pure false

def KindP (p : Kind → Bool) (q : List Tok) : Prop := ∃ t, q.head? = some t ∧ p t.kind = true

def ItemsR (Q : List Ast.Tok → Prop) (x : List Ast.Tok) : Prop := ∃ items : List (List Ast.Tok), x = items.flatten ∧ ∀ i ∈ items, Q i

theorem good_itemsBody (p : Kind → Bool) (item : PI Unit) (hg : Good item) (k : Kind) : Good (itemsBody p item k) :=
  good_ite _ _ _ (good_bind _ _ hg (fun _ => good_pure _)) (good_pure _)

theorem acc_itemsLoop {E : PState → Prop} (hE : Early E) (p : Kind → Bool) (item : PI Unit) (Q : List Ast.Tok → Prop)
    (hitem : Acc E (KindP p) item (fun _ => Q)) : ∀ fuel,
    Acc E (fun _ => True) (peekWhileLoop (itemsBody p item) fuel) (fun _ => ItemsR Q) := by
  intro fuel
  refine ⟨good_peekWhileLoop _ (good_itemsBody p item hitem.1) fuel, ?_⟩
  induction fuel with
  | zero => intro s a s' _ _ _ h; simp [peekWhileLoop, PI.outOfFuel] at h
  | succ fuel ih =>
    intro s a s' w he _ h hnd
    unfold peekWhileLoop at h
    obtain ⟨ko, sP, hp, h2⟩ := bind_dec peek _ s s' () h
    obtain ⟨o, p', hko⟩ := peek_obs s sP ko w hp
    subst hko
    have heP : EofEnd sP := eofEnd_eat he p'.eat (by intro x hx; cases hx)
    have stop : s' = sP → AccRes E s s' (ItemsR Q) := by
      intro e
      rw [e]
      exact ⟨[], (by rw [p'.toks]; rfl), (by intro x hx; cases hx), heP, Or.inl ⟨[], TokIs.nil, [], rfl, (by intro i hi; cases hi)⟩⟩
    cases o with
    | none =>
      simp only [Option.map_none] at h2
      rw [run_pure] at h2
      injection h2 with _ h2
      exact stop h2.symm
    | some t =>
      simp only [Option.map_some] at h2
      have h3 := getCurrent_dec _ sP s' () h2
      obtain ⟨b, sB, hb, h4⟩ := bind_dec (itemsBody p item t.kind) _ sP s' () h3
      unfold itemsBody at hb
      by_cases hpk : p t.kind = true
      · simp only [hpk, if_true] at hb
        obtain ⟨_, sI, hi, hb2⟩ := bind_dec item _ sP sB b hb
        rw [run_pure] at hb2
        injection hb2 with hb2 hb3
        subst hb2 hb3
        simp only [if_true] at h4
        have h5 := getCurrent_dec _ sI s' () h4
        have aI := hitem.1 sP () sI p'.w hi
        by_cases hsame : (sP.current == sI.current) = true
        · simp only [hsame, if_true] at h5
          exact absurd h5 (stuck_not_ok _ _ _)
        · simp only [hsame, Bool.false_eq_true, if_false] at h5
          have hndI : ¬ Doomed sI := fun d => hnd ((good_peekWhileLoop _ (good_itemsBody p item hitem.1) fuel sI () s' aI.w h5).doom d)
          have hq : KindP p (Toks sP) := ⟨t, by rw [p'.toks]; exact p'.head.symm, hpk⟩
          obtain ⟨c1, t1, n1, e1, r1⟩ := hitem.2 sP () sI p'.w heP hq hi hndI
          obtain ⟨c2, t2, n2, e2, r2⟩ := ih sI () s' aI.w e1 trivial h5 hnd
          refine ⟨c1 ++ c2, by rw [← p'.toks, t1, t2, List.append_assoc], noEof_append n1 n2, e2, ?_⟩
          rcases r1 with ⟨x1, hx1, hq1⟩ | ev
          · rcases r2 with ⟨x2, hx2, items, hxi, hall⟩ | ev2
            · refine Or.inl ⟨x1 ++ x2, ?_, x1 :: items, by simp [hxi], ?_⟩
              · rw [sig_append]; exact hx1.append hx2
              · intro i hi'
                rcases List.mem_cons.mp hi' with rfl | hi'
                · exact hq1
                · exact hall i hi'
            · exact Or.inr ev2
          · exact Or.inr (hE.carries sI s' c2 e1 hndI ev t2 n2)
      · simp only [hpk, Bool.false_eq_true, if_false] at hb
        rw [run_pure] at hb
        injection hb with hb2 hb3
        subst hb2 hb3
        simp only [Bool.false_eq_true, if_false] at h4
        rw [run_pure] at h4
        injection h4 with _ h4
        exact stop h4.symm

theorem acc_itemsWhile {E : PState → Prop} (hE : Early E) {H : List Tok → Prop} (p : Kind → Bool) (item : PI Unit) (Q : List Ast.Tok → Prop)
    (hitem : Acc E (KindP p) item (fun _ => Q)) :
    Acc E H (peekWhile (itemsBody p item)) (fun _ => ItemsR Q) := by
  have hl := acc_itemsLoop hE p item Q hitem
  refine ⟨good_peekWhile _ (good_itemsBody p item hitem.1), ?_⟩
  intro s a s' w he _ h hnd
  unfold peekWhile at h
  obtain ⟨fuel, h5⟩ := srcLen_dec _ s s' () h
  exact (hl _).2 s () s' w he trivial h5 hnd

/-- `peek_while_kind(k, item)` in the calculus -/
theorem acc_kindWhile {E : PState → Prop} (hE : Early E) {H : List Tok → Prop} (k : Kind) (item : PI Unit) (Q : List Ast.Tok → Prop)
    (hitem : Acc E (KindP (· == k)) item (fun _ => Q)) :
    Acc E H (peekWhileKind k item) (fun _ => ItemsR Q) := by
  refine ⟨good_peekWhileKind k item hitem.1, ?_⟩
  intro s a s' w he _ h hnd
  have hspec : ItemSpec E k item Q := by
    intro s1 s2 t rest w1 he1 ht hk hr hnd2
    exact hitem.2 s1 () s2 w1 he1 ⟨t, by rw [ht]; rfl, by simp [hk]⟩ hr hnd2
  obtain ⟨cs, a1, a2, a3, a4⟩ := peekWhileKind_sound E hE.carries k item Q hitem.1 hspec s s' w he h hnd
  refine ⟨cs, a1, a2, a3, ?_⟩
  rcases a4 with ⟨items, hi, hall⟩ | e
  · exact Or.inl ⟨_, hi, items, rfl, hall⟩
  · exact Or.inr e

end Apollo.Parse
