import ApolloModel.Proofs.AstTokens
/-
Round trip of values and types through the reference parser: for every value (unbounded nesting),
`pValue` reads back exactly the value whose tokens were printed, and stops where the printer stopped.
-/
namespace Apollo.Ast

mutual
/-- the only constraint a parsed value satisfies beyond its shape: an enum value is not `true`, `false`, `null` -/
def wfValue : Value → Bool
  | .enum n => n != sTrue && n != sFalse && n != sNull
  | .list vs => wfValues vs
  | .obj fs => wfObjFields fs
  | _ => true
def wfValues : Values → Bool
  | .nil => true
  | .cons v tl => wfValue v && wfValues tl
def wfObjFields : ObjFields → Bool
  | .nil => true
  | .cons _ v tl => wfValue v && wfObjFields tl
end

mutual
def szValue : Value → Nat
  | .list vs => szValues vs + 1
  | .obj fs => szObjFields fs + 1
  | _ => 1
def szValues : Values → Nat
  | .nil => 1
  | .cons v tl => szValue v + szValues tl + 1
def szObjFields : ObjFields → Nat
  | .nil => 1
  | .cons _ v tl => szValue v + szObjFields tl + 1
end

/-- tokens that can start a value -/
def valueStart : Tok → Bool
  | .p .dollar | .p .lBracket | .p .lCurly | .name _ | .int _ | .float _ | .str _ => true
  | _ => false

theorem tValue_head (v : Value) : ∃ t r, tValue v = t :: r ∧ valueStart t = true := by
  cases v with
  | bool b => cases b <;> exact ⟨_, _, rfl, rfl⟩
  | _ => exact ⟨_, _, rfl, rfl⟩

theorem pValues_step (f : Nat) (t : Tok) (r : List Tok) (h : t ≠ .p .rBracket) (v : Value) (r1 : List Tok)
    (vs : Values) (r' : List Tok) (h1 : pValue f (t :: r) = some (v, r1)) (h2 : pValues f r1 = some (vs, r')) :
    pValues (f + 1) (t :: r) = some (.cons v vs, r') := by
  cases t with
  | p k => cases k <;> first | exact absurd rfl h | simp [pValues, h1, h2]
  | _ => simp [pValues, h1, h2]

mutual
theorem value_roundtrip : ∀ (v : Value) (f : Nat) (rest : List Tok), wfValue v = true → szValue v ≤ f →
    pValue f (tValue v ++ rest) = some (v, rest)
  | .null, f + 1, rest, _, _ => by simp [tValue, pValue, sNull, sTrue, sFalse]
  | .bool true, f + 1, rest, _, _ => by simp [tValue, pValue, sTrue]
  | .bool false, f + 1, rest, _, _ => by simp [tValue, pValue, sTrue, sFalse]
  | .enum n, f + 1, rest, h, _ => by
      simp [wfValue] at h
      simp [tValue, pValue, h]
  | .str s, f + 1, rest, _, _ => by simp [tValue, pValue]
  | .var n, f + 1, rest, _, _ => by simp [tValue, pValue]
  | .float t, f + 1, rest, _, _ => by simp [tValue, pValue]
  | .int t, f + 1, rest, _, _ => by simp [tValue, pValue]
  | .list vs, f + 1, rest, h, hs => by
      have := values_roundtrip vs f rest (by simpa [wfValue] using h) (by simp [szValue] at hs; omega)
      simp [tValue, pValue, this]
  | .obj fs, f + 1, rest, h, hs => by
      have := objFields_roundtrip fs f rest (by simpa [wfValue] using h) (by simp [szValue] at hs; omega)
      simp [tValue, pValue, this]
  | .null, 0, _, _, hs | .bool _, 0, _, _, hs | .enum _, 0, _, _, hs | .str _, 0, _, _, hs | .var _, 0, _, _, hs
  | .float _, 0, _, _, hs | .int _, 0, _, _, hs | .list _, 0, _, _, hs | .obj _, 0, _, _, hs => by
      simp [szValue] at hs
theorem values_roundtrip : ∀ (vs : Values) (f : Nat) (rest : List Tok), wfValues vs = true → szValues vs ≤ f →
    pValues f (tValues vs ++ .p .rBracket :: rest) = some (vs, rest)
  | .nil, f + 1, rest, _, _ => by simp [tValues, pValues]
  | .cons v tl, f + 1, rest, h, hs => by
      simp [wfValues] at h
      simp [szValues] at hs
      obtain ⟨t, r, ht, hst⟩ := tValue_head v
      have hv := value_roundtrip v f (tValues tl ++ .p .rBracket :: rest) h.1 (by omega)
      have htl := values_roundtrip tl f rest h.2 (by omega)
      have hne : t ≠ .p .rBracket := by intro e; subst e; simp [valueStart] at hst
      simp only [tValues, List.append_assoc]
      rw [ht] at hv ⊢
      simp only [List.cons_append] at hv ⊢
      exact pValues_step f t _ hne _ _ _ _ hv htl
  | .nil, 0, _, _, hs | .cons _ _, 0, _, _, hs => by simp [szValues] at hs
theorem objFields_roundtrip : ∀ (fs : ObjFields) (f : Nat) (rest : List Tok), wfObjFields fs = true → szObjFields fs ≤ f →
    pObjFields f (tObjFields fs ++ .p .rCurly :: rest) = some (fs, rest)
  | .nil, f + 1, rest, _, _ => by simp [tObjFields, pObjFields]
  | .cons n v tl, f + 1, rest, h, hs => by
      simp [wfObjFields] at h
      simp [szObjFields] at hs
      have hv := value_roundtrip v f (tObjFields tl ++ .p .rCurly :: rest) h.1 (by omega)
      have htl := objFields_roundtrip tl f rest h.2 (by omega)
      simp [tObjFields, pObjFields, hv, htl]
  | .nil, 0, _, _, hs | .cons _ _ _, 0, _, _, hs => by simp [szObjFields] at hs
end

/-! ### types -/

def tTy : Ty → List Tok
  | .named n => [.name n]
  | .nonNullNamed n => [.name n, .p .bang]
  | .list t => .p .lBracket :: tTy t ++ [.p .rBracket]
  | .nonNullList t => .p .lBracket :: tTy t ++ [.p .rBracket, .p .bang]

theorem toksOf_cTy (t : Ty) : toksOf (cTy t) = tTy t := by
  induction t with
  | named n => rfl
  | nonNullNamed n => rfl
  | list t ih => simp [cTy, tTy, ih]
  | nonNullList t ih => simp [cTy, tTy, ih]

def szTy : Ty → Nat
  | .named _ | .nonNullNamed _ => 1
  | .list t | .nonNullList t => szTy t + 1

/-- a type reads back provided the token after it is not `!` (the printer never writes `!!`) -/
theorem ty_roundtrip (t : Ty) : ∀ (f : Nat) (rest : List Tok), szTy t ≤ f → rest.head? ≠ some (.p .bang) →
    pTy f (tTy t ++ rest) = some (t, rest) := by
  induction t with
  | named n =>
    intro f rest hs hr
    cases f with
    | zero => simp [szTy] at hs
    | succ f =>
      cases rest with
      | nil => simp [tTy, pTy]
      | cons a rest =>
        simp only [List.head?_cons, ne_eq, Option.some.injEq] at hr
        simp only [tTy, List.cons_append, List.nil_append]
        cases a with
        | p k => cases k <;> first | exact absurd rfl hr | simp [pTy]
        | _ => simp [pTy]
  | nonNullNamed n =>
    intro f rest hs _
    cases f with
    | zero => simp [szTy] at hs
    | succ f => simp [tTy, pTy]
  | list t ih =>
    intro f rest hs hr
    cases f with
    | zero => simp [szTy] at hs
    | succ f =>
      have := ih f (.p .rBracket :: rest) (by simp [szTy] at hs; omega) (by simp)
      simp only [tTy, List.cons_append, List.append_assoc, List.nil_append]
      rw [pTy]
      simp only [this]
      cases rest with
      | nil => rfl
      | cons a rest =>
        simp only [List.head?_cons, ne_eq, Option.some.injEq] at hr
        cases a with
        | p k => cases k <;> first | exact absurd rfl hr | rfl
        | _ => rfl
  | nonNullList t ih =>
    intro f rest hs _
    cases f with
    | zero => simp [szTy] at hs
    | succ f =>
      have := ih f (.p .rBracket :: .p .bang :: rest) (by simp [szTy] at hs; omega) (by simp)
      simp [tTy, pTy, this]

end Apollo.Ast
