import ApolloModel.Proofs.ParserTree37
import ApolloModel.Proofs.ParserComplete30
/-
C08 growth (pipeline), part 38: builderB's ParserComplete30 (the follow guard of a printed document, `definitionFit`)
repeated over the EXACT completeness calculus (namespace Apollo.Parse.Exact).
-/
set_option linter.unusedSimpArgs false
set_option linter.unusedVariables false

namespace Apollo.Parse.Exact
open Apollo.Rowan hiding Str
open Apollo.Lex hiding Str

/-- how a definition that is not the first one starts (or the end of the document): a description, or a keyword
    (never `{`, `@`, `(`, `&`, `|`, `=`, and never the Name `implements`) -/
def StartOk (f : Option Ast.Tok) : Prop :=
  f = none ∨ (∃ s, f = some (.str s)) ∨ (∃ w, f = some (.name w) ∧ w ≠ "implements".toList)

theorem looseFollowG_of_kind (l : LooseDef) (k : Kind) (p : Prop) (hk : k = .eof ∨ k = .name ∨ k = .stringValue) (hp : p) :
    looseFollowG l k p := by
  rcases hk with rfl | rfl | rfl <;> cases l <;> simp [looseFollowG, Fbody, hp]

theorem looseFollowA_of_start (l : LooseDef) (f : Option Ast.Tok) (h : StartOk f) : looseFollowA l f := by
  unfold looseFollowA
  rcases h with rfl | ⟨s, rfl⟩ | ⟨w, rfl, hw⟩
  · exact looseFollowG_of_kind l _ _ (Or.inl rfl) (by intro h; cases h)
  · exact looseFollowG_of_kind l _ _ (Or.inr (Or.inr rfl)) (by intro h; cases h)
  · refine looseFollowG_of_kind l _ _ (Or.inr (Or.inl rfl)) ?_
    intro h
    injection h with h
    injection h with h
    exact hw h

theorem startOk_desc (desc : Option Ast.Str) (w : String) (x : List Ast.Tok) (hw : w.toList ≠ "implements".toList) :
    StartOk (Ast.tDescription desc ++ .name w.toList :: x).head? := by
  cases desc with
  | none => exact Or.inr (Or.inr ⟨w.toList, rfl, hw⟩)
  | some s => exact Or.inr (Or.inl ⟨s, rfl⟩)

/-- a definition printed in the long form starts with a description or one of the thirteen keywords -/
theorem tDefinition_start (d : Ast.Definition) : StartOk (Ast.tDefinition false d).head? ∧ Ast.tDefinition false d ≠ [] := by
  have nd : ∀ (desc : Option Ast.Str) (w : String) (x : List Ast.Tok), Ast.tDescription desc ++ .name w.toList :: x ≠ [] := by
    intro desc w x; cases desc <;> simp [Ast.tDescription]
  cases d with
  | operation ty name vars dirs sels =>
    have : Ast.tDefinition false (.operation ty name vars dirs sels) =
        .name ty.name.toList :: ((match name with | some n => [.name n] | none => []) ++ Ast.tVarDefs vars ++ Ast.tDirectives dirs ++ Ast.tSelSet sels) := by
      cases name <;> simp [Ast.tDefinition, Ast.isShorthand, List.append_assoc]
    rw [this]
    refine ⟨Or.inr (Or.inr ⟨_, rfl, ?_⟩), by simp⟩
    cases ty <;> decide
  | fragment name tc dirs sels => exact ⟨Or.inr (Or.inr ⟨_, rfl, by decide⟩), by simp [Ast.tDefinition]⟩
  | directiveDef desc nm args rep locs =>
    have e : Ast.tDefinition false (.directiveDef desc nm args rep locs) = Ast.tDescription desc ++ .name "directive".toList ::
        (.p .at :: .name nm :: (Ast.tArgsDef args ++ ((if rep then [.name Ast.sRepeatable] else []) ++ Ast.tSepList [.name Ast.sOn] .pipe locs))) := by
      simp only [Ast.tDefinition, List.append_assoc, List.cons_append]
    rw [e]
    exact ⟨startOk_desc desc "directive" _ (by decide), nd desc "directive" _⟩
  | schemaDef desc ds roots =>
    have e : Ast.tDefinition false (.schemaDef desc ds roots) = Ast.tDescription desc ++ .name "schema".toList ::
        (Ast.tDirectives ds ++ (.p .lCurly :: (Ast.tRootOpItems roots ++ [.p .rCurly]))) := by
      simp only [Ast.tDefinition, List.append_assoc, List.cons_append]
    rw [e]
    exact ⟨startOk_desc desc "schema" _ (by decide), nd desc "schema" _⟩
  | scalarDef desc nm ds => exact ⟨startOk_desc desc "scalar" _ (by decide), nd desc "scalar" _⟩
  | objectDef desc nm impls ds fs => exact ⟨startOk_desc desc "type" _ (by decide), nd desc "type" _⟩
  | interfaceDef desc nm impls ds fs => exact ⟨startOk_desc desc "interface" _ (by decide), nd desc "interface" _⟩
  | unionDef desc nm ds ms => exact ⟨startOk_desc desc "union" _ (by decide), nd desc "union" _⟩
  | enumDef desc nm ds vs => exact ⟨startOk_desc desc "enum" _ (by decide), nd desc "enum" _⟩
  | inputDef desc nm ds fs => exact ⟨startOk_desc desc "input" _ (by decide), nd desc "input" _⟩
  | schemaExt ds roots => exact ⟨Or.inr (Or.inr ⟨_, rfl, by decide⟩), by simp [Ast.tDefinition]⟩
  | scalarExt nm ds => exact ⟨Or.inr (Or.inr ⟨_, rfl, by decide⟩), by simp [Ast.tDefinition]⟩
  | objectExt nm impls ds fs => exact ⟨Or.inr (Or.inr ⟨_, rfl, by decide⟩), by simp [Ast.tDefinition]⟩
  | interfaceExt nm impls ds fs => exact ⟨Or.inr (Or.inr ⟨_, rfl, by decide⟩), by simp [Ast.tDefinition]⟩
  | unionExt nm ds ms => exact ⟨Or.inr (Or.inr ⟨_, rfl, by decide⟩), by simp [Ast.tDefinition]⟩
  | enumExt nm ds vs => exact ⟨Or.inr (Or.inr ⟨_, rfl, by decide⟩), by simp [Ast.tDefinition]⟩
  | inputExt nm ds fs => exact ⟨Or.inr (Or.inr ⟨_, rfl, by decide⟩), by simp [Ast.tDefinition]⟩

/-- what follows a definition in a printed document: the start of a long-form definition, or the end -/
theorem startOk_tail : ∀ r : List Ast.Definition, (∀ x ∈ r, Ast.wfDefinition x = true) →
    StartOk (docToks (r.map (itemOfDef false))).head?
  | [], _ => Or.inl rfl
  | d :: r, h => by
    have ht : docToks ((d :: r).map (itemOfDef false)) = Ast.tDefinition false d ++ docToks (r.map (itemOfDef false)) := by
      simp [docToks, itemOfDef_toks false d (h d (by simp))]
    obtain ⟨h1, h2⟩ := tDefinition_start d
    rw [ht]
    cases hx : Ast.tDefinition false d with
    | nil => exact absurd hx h2
    | cons a x => rw [hx] at h1; exact h1

theorem itemFollowA_of_start (i : DocItem) (f : Option Ast.Tok) (h : StartOk f) : itemFollowA i f := by
  cases i with
  | exec oe d => trivial
  | loose l => exact looseFollowA_of_start l f h

theorem docFollowOk_tail : ∀ r : List Ast.Definition, (∀ x ∈ r, Ast.wfDefinition x = true) →
    DocFollowOk (r.map (itemOfDef false))
  | [], _ => trivial
  | d :: r, h =>
    ⟨itemFollowA_of_start _ _ (startOk_tail r (fun x hx => h x (by simp [hx]))), docFollowOk_tail r (fun x hx => h x (by simp [hx]))⟩

/-- **docFollowOk_of_printed**: in the printer's shape (shorthand only in front) every definition may be followed by the
    next one — the follow guard `DocFollowOk` of `document_accept_complete` is a theorem for printed documents -/
theorem docFollowOk_of_printed (oe : Bool) (ds : List Ast.Definition) (h : ∀ x ∈ ds, Ast.wfDefinition x = true) :
    DocFollowOk (itemsOfDocument oe ds) := by
  cases ds with
  | nil => trivial
  | cons d r =>
    exact ⟨itemFollowA_of_start _ _ (startOk_tail r (fun x hx => h x (by simp [hx]))),
      docFollowOk_tail r (fun x hx => h x (by simp [hx]))⟩

/-! ### the remaining hypothesis: within the recursion limit -/

/-- **a definition within the recursion limit `rl`**, with the exact guards of `document_accept_complete` read on the
    abstract syntax (`itemFit` of its item): nesting of types, values and selection sets within `rl`; `Const` default
    values and definition-side directives; enum values not `true`/`false`/`null`; spread / fragment names ≠ `on`;
    non-empty selection sets; directive locations among the nineteen names; an extension has at least one component -/
def definitionFit (rl : Nat) (d : Ast.Definition) : Prop := itemFit rl (itemOfDef false d)

theorem itemFit_itemOfDef (rl : Nat) (oe : Bool) (d : Ast.Definition) (h : definitionFit rl d) : itemFit rl (itemOfDef oe d) := by
  cases d with
  | directiveDef desc nm args rep locs => cases locs <;> exact h
  | _ => exact h

theorem itemFit_itemsOfDocument (rl : Nat) (oe : Bool) (ds : List Ast.Definition) (h : ∀ x ∈ ds, definitionFit rl x) :
    ∀ i ∈ itemsOfDocument oe ds, itemFit rl i := by
  cases ds with
  | nil => intro i hi; cases hi
  | cons d r =>
    intro i hi
    rcases List.mem_cons.mp hi with rfl | hi
    · exact itemFit_itemOfDef rl oe d (h d (by simp))
    · obtain ⟨x, hx, rfl⟩ := List.mem_map.mp hi
      exact h x (by simp [hx])

/-- what `definitionFit` says, definition kind by definition kind -/
theorem definitionFit_operation (rl : Nat) (ty : Ast.OpType) (name : Option Ast.Str) (vars : List Ast.VarDef)
    (dirs : List Ast.Directive) (sels : Ast.Sels) :
    definitionFit rl (.operation ty name vars dirs sels) ↔
      ((∀ v ∈ vars, varFit rl v) ∧ dirsFit false rl dirs ∧ sels ≠ Ast.Sels.nil ∧ 1 ≤ rl ∧ fitSels sels (rl - 1)) := Iff.rfl

theorem definitionFit_fragment (rl : Nat) (name tc : Ast.Str) (dirs : List Ast.Directive) (sels : Ast.Sels) :
    definitionFit rl (.fragment name tc dirs sels) ↔
      (name ≠ Ast.sOn ∧ dirsFit false rl dirs ∧ sels ≠ Ast.Sels.nil ∧ 1 ≤ rl ∧ fitSels sels (rl - 1)) := Iff.rfl

theorem definitionFit_objectDef (rl : Nat) (desc : Option Ast.Str) (nm : Ast.Str) (impls : List Ast.Str) (ds : List Ast.Directive)
    (fs : List Ast.FieldDef) :
    definitionFit rl (.objectDef desc nm impls ds fs) ↔ (dirsFit true rl ds ∧ ∀ f ∈ fs, fieldFit rl f) := Iff.rfl

theorem definitionFit_objectExt (rl : Nat) (nm : Ast.Str) (impls : List Ast.Str) (ds : List Ast.Directive) (fs : List Ast.FieldDef) :
    definitionFit rl (.objectExt nm impls ds fs) ↔
      ((sepOf impls ≠ none ∨ ds ≠ [] ∨ fs ≠ []) ∧ dirsFit true rl ds ∧ ∀ f ∈ fs, fieldFit rl f) := Iff.rfl

theorem definitionFit_scalarDef (rl : Nat) (desc : Option Ast.Str) (nm : Ast.Str) (ds : List Ast.Directive) :
    definitionFit rl (.scalarDef desc nm ds) ↔ dirsFit true rl ds := Iff.rfl

theorem definitionFit_schemaDef (rl : Nat) (desc : Option Ast.Str) (ds : List Ast.Directive) (roots : List (Ast.OpType × Ast.Str)) :
    definitionFit rl (.schemaDef desc ds roots) ↔
      (dirsFit true rl ds ∧ looseRoots roots ≠ [] ∧ ∀ r ∈ looseRoots roots, r.2 ≠ none) := Iff.rfl


end Apollo.Parse.Exact
