import ApolloModel.Proofs.BuiltinScalars2
/-
C16 growth: the type lookup used by the value check is total on built-in scalar names whether or not
validation has pruned them, and a validation pass does not change what it returns.
-/
namespace Apollo.Scalars

theorem find?_congr' {α : Type} {p q : α → Bool} : ∀ (l : List α), (∀ x ∈ l, p x = q x) → l.find? p = l.find? q
  | [], _ => rfl
  | x :: xs, h => by
    have hx := h x List.mem_cons_self
    have ih := find?_congr' xs (fun y hy => h y (List.mem_cons_of_mem _ hy))
    simp only [List.find?_cons, hx, ih]

theorem lookup_builtin_total (s : Schema) (b : Name) (hb : b ∈ builtinScalars) :
    (lookupForValue s b).isSome = true := by
  unfold lookupForValue
  cases h : s.types.find? (·.1 == b) with
  | some e => rfl
  | none => simp [hb]

/-- in a well-formed map whose entries named like built-in scalars are the built-in definitions, the
    lookup of a built-in scalar is its built-in definition, present or pruned -/
theorem lookup_builtin_exact (s : Schema) (wf : WellFormed s)
    (hbuilt : ∀ e ∈ s.types, builtinScalars.contains e.1 = true → e.2.isBuiltIn = true)
    (b : Name) (hb : b ∈ builtinScalars) : lookupForValue s b = some builtinDef := by
  have hc : builtinScalars.contains b = true := by simpa using hb
  unfold lookupForValue
  cases h : s.types.find? (·.1 == b) with
  | none => simp [hb]
  | some e =>
    have hmem := List.mem_of_find?_eq_some h
    have hname : e.1 = b := by simpa using List.find?_some h
    have hce : builtinScalars.contains e.1 = true := by rw [hname]; exact hc
    show some e.2 = some builtinDef
    rw [wf.2 e hmem (hbuilt e hmem hce) hce]

theorem mem_bookkeeping_types (order : List Name → List Name) (ho : IsOrder order) (s : Schema)
    (e : Name × TypeDef) (he : e ∈ (bookkeeping order s).types) :
    e ∈ s.types ∨ (e.1 ∈ builtinScalars ∧ e.2 = builtinDef) := by
  unfold bookkeeping at he
  simp only [List.mem_append] at he
  rcases he with he | he
  · left
    split at he
    · exact he
    · exact (List.mem_filter.mp he).1
  · right
    obtain ⟨n, hn, rfl⟩ := List.mem_map.mp he
    have := (ho.mem _ _).mp hn
    exact ⟨((mem_usedAndUndefined s n).mp this).1, rfl⟩

/-- after a pass the lookup of a built-in scalar is still its built-in definition -/
theorem lookup_builtin_after (order : List Name → List Name) (ho : IsOrder order) (s : Schema) (wf : WellFormed s)
    (hbuilt : ∀ e ∈ s.types, builtinScalars.contains e.1 = true → e.2.isBuiltIn = true)
    (b : Name) (hb : b ∈ builtinScalars) : lookupForValue (bookkeeping order s) b = some builtinDef := by
  have hc : builtinScalars.contains b = true := by simpa using hb
  unfold lookupForValue
  cases h : (bookkeeping order s).types.find? (·.1 == b) with
  | none => simp [hb]
  | some e =>
    have hmem := List.mem_of_find?_eq_some h
    have hname : e.1 = b := by simpa using List.find?_some h
    rcases mem_bookkeeping_types order ho s e hmem with h1 | h1
    · have hce : builtinScalars.contains e.1 = true := by rw [hname]; exact hc
      show some e.2 = some builtinDef
      rw [wf.2 e h1 (hbuilt e h1 hce) hce]
    · show some e.2 = some builtinDef
      rw [h1.2]

/-- names that are not built-in scalars are looked up in the map, which a pass leaves alone for them -/
theorem lookup_other_unchanged (order : List Name → List Name) (ho : IsOrder order) (s : Schema)
    (n : Name) (hn : n ∉ builtinScalars) : lookupForValue (bookkeeping order s) n = lookupForValue s n := by
  have hc : builtinScalars.contains n = false := by simpa using hn
  have hfind : (bookkeeping order s).types.find? (·.1 == n) = s.types.find? (·.1 == n) := by
    unfold bookkeeping
    simp only [List.find?_append]
    have hins : ((order (usedAndUndefined s)).map fun m => (m, builtinDef)).find? (·.1 == n) = none := by
      rw [List.find?_eq_none]
      intro e he
      obtain ⟨m, hm, rfl⟩ := List.mem_map.mp he
      have := ((mem_usedAndUndefined s m).mp ((ho.mem _ _).mp hm)).1
      simp only [beq_iff_eq]
      intro heq
      exact hn (heq ▸ this)
    rw [hins, Option.or_none]
    split
    · rfl
    · rw [List.find?_filter]
      apply find?_congr'
      intro e _
      by_cases hen : e.1 = n
      · simp [keep, hen, hn]
      · simp [hen]
  unfold lookupForValue
  rw [hfind]

/-- what the value check looks up is the same before and after a validation pass, for every name -/
theorem value_lookup_stable (order : List Name → List Name) (ho : IsOrder order) (s : Schema) (wf : WellFormed s)
    (hbuilt : ∀ e ∈ s.types, builtinScalars.contains e.1 = true → e.2.isBuiltIn = true) (n : Name) :
    lookupForValue (bookkeeping order s) n = lookupForValue s n := by
  by_cases hn : n ∈ builtinScalars
  · rw [lookup_builtin_after order ho s wf hbuilt n hn, lookup_builtin_exact s wf hbuilt n hn]
  · exact lookup_other_unchanged order ho s n hn

end Apollo.Scalars
