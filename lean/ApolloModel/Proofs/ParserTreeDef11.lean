import ApolloModel.Proofs.ParserTreeDef10
/-
C08 growth (pipeline), stage (v), part 11: the parser side of the directive definition, and the type-system
definitions and extensions through the dispatcher (`selectDefinition`, `extensions`, `documentDispatch`):
`tr_typeSystemDefinition`.
-/
set_option linter.unusedSimpArgs false
set_option linter.unusedVariables false
namespace Apollo.Parse
open Apollo.Rowan hiding Str
open Apollo.Lex hiding Str
open Apollo.FromCst (TyTree DescPre OptDirs All2 Hd AllToks NamedDefTree DefTree SchemaLike DirDefTree RootsPart RootTree LocsNode
  OptIvds IvdsNode tokP LocTree)

/-! ### directive definition -/

theorem tr_dLocs {H : List Tok → Prop} :
    Tr NoE H dLocs (fun _ cs e => ∃ (lead : Bool) (first : Ast.Str) (rest : List Ast.Str) (el : Elem),
      TokIs cs (tSepLead .pipe lead first rest) ∧ e = [el] ∧ LocsNode (first :: rest) el) := by
  unfold dLocs
  refine tr_peekIf _ _ _ _ ?_ tr_err
  refine (tr_withNodeAny early_false "DIRECTIVE_LOCATIONS" (tr_directiveLocations early_false (H := fun _ => True))).mono
    (fun _ h => h) ?_
  rintro _ cs e ⟨inner, rfl, lead, first, rest, h1, h2⟩
  exact ⟨lead, first, rest, _, h1, rfl, inner, rfl, h2⟩

theorem tr_dOn {H : List Tok → Prop} :
    Tr NoE H dOn (fun _ cs e => ∃ (ton : Tok) (lead : Bool) (first : Ast.Str) (rest : List Ast.Str) (el : Elem),
      TokIs cs (.name Ast.sOn :: tSepLead .pipe lead first rest) ∧ e = [Elem.tok "on_KW" ton.data, el] ∧
      LocsNode (first :: rest) el) := by
  unfold dOn
  apply tr_peekData
  intro o
  cases o with
  | none => exact (tr_never (acc_emptyQueue good_dLocs)).mono (fun _ h => h.2) (fun _ _ _ h => h)
  | some t =>
    simp only [Option.map]
    refine tr_ite _ (fun hk => ?_) (fun _ => tr_never (acc_err' dLocs good_dLocs))
    have hd : t.data = "on".toList := by simpa [kw] using hk
    have hb : Tr NoE (fun q => H q ∧ q.head? = some t) (bump "on_KW") _ :=
      (tr_bumpKw (E := NoE) "on" kwWord_on "on_KW" (by decide)).mono (fun q hq => ⟨t, hq.2, hd⟩) (fun _ _ _ h => h)
    refine (tr_bind early_false hb (fun _ => tr_dLocs (H := fun _ => True))).mono (fun _ h => h) ?_
    rintro _ cs e ⟨_, c1, c2, e1, e2, rfl, rfl, ⟨ton, hd1, hk1, rfl, rfl⟩, lead, first, rest, el, h1, rfl, h3⟩
    refine ⟨ton, lead, first, rest, el, ?_, rfl, h3⟩
    refine TokIs.cons (t := ton) ?_ h1
    rw [show astOfV ton = some (.name ton.data) from by simp [astOfV, hk1], hd1]; rfl

/-- what follows the `directive` keyword -/
def DirTailT (cs : List Tok) (e : List Elem) : Prop :=
  ∃ (nm : Ast.Str) (args : List Ast.InputValueDef) (rep lead : Bool) (first : Ast.Str) (rest : List Ast.Str)
    (dat don : Rowan.Str) (ta trep : List Elem) (el : Elem),
    TokIs cs (.p .at :: .name nm :: Ast.tArgsDef args ++ kwPart "repeatable" rep ++ .name Ast.sOn :: tSepLead .pipe lead first rest) ∧
    isValidName nm = true ∧ Ast.wfIVDs args = true ∧
    e = Elem.tok "AT" dat :: nameNode nm :: (ta ++ (trep ++ [Elem.tok "on_KW" don, el])) ∧
    OptIvds "ARGUMENTS_DEFINITION" "L_PAREN" "R_PAREN" args ta ∧
    ((rep = true ∧ ∃ d, trep = [Elem.tok "repeatable_KW" d]) ∨ (rep = false ∧ trep = [])) ∧ LocsNode (first :: rest) el

theorem tr_dAt (n : Nat) {H : List Tok → Prop} : Tr NoE H (dAt n) (fun _ => DirTailT) := by
  have hRep := tr_optKw early_false (H := fun _ => True) "repeatable" kwWord_repeatable "repeatable_KW" (by decide) dOn _
    (tr_dOn (H := fun _ => True))
  have hArgs := tr_optKind early_false (H := fun _ => True) .lParen (argumentsDefinition n) _ _ _ (tr_argumentsDefinition n) hRep
  have hName : Tr NoE (fun _ => True) (dName n) _ := tr_bind early_false (tr_name (E := NoE) (H := fun _ => True)) (fun _ => hArgs)
  unfold dAt
  have hbat := tr_bump (E := NoE) "AT" (by decide) (fun t => t.kind = .at) (by intro t h; rw [h]; exact ⟨rfl, by decide⟩)
  have hb := tr_bind early_false hbat (fun _ => hName)
  refine (tr_ifKind .at _ _ _ (hb.mono (fun q ⟨t, h1, h2⟩ => ⟨t, h1, by simpa using h2⟩) (fun _ _ _ h => h))
    (tr_never (acc_err' (dName n) hName.1))).mono (fun _ h => h) ?_
  rintro _ cs e ⟨_, c1, c2, e1, e2, rfl, rfl, ⟨tat, hkat, _, rfl, rfl⟩, _, c3, c4, e3, e4, rfl, rfl, ⟨tn, hkn, hvn, rfl, rfl⟩,
    c5, c6, e5, e6, rfl, rfl, hargs, rep, c7, c8, e7, e8, rfl, rfl, hrep, ton, lead, first, rest, el, hon, rfl, hel⟩
  obtain ⟨hr1, _⟩ := kwPartT_toks hrep
  have hrepE : (rep = true ∧ ∃ d, e7 = [Elem.tok "repeatable_KW" d]) ∨ (rep = false ∧ e7 = []) := by
    cases rep with
    | true =>
      obtain ⟨t, _, _, _, he⟩ : ∃ t : Tok, t.data = "repeatable".toList ∧ t.kind = .name ∧ c7 = [t] ∧
          e7 = [Elem.tok "repeatable_KW" t.data] := by simpa [KwPartT] using hrep
      exact Or.inl ⟨rfl, _, he⟩
    | false =>
      obtain ⟨_, he⟩ : c7 = [] ∧ e7 = [] := by simpa [KwPartT] using hrep
      exact Or.inr ⟨rfl, he⟩
  have hat : TokIs [tat] [Ast.Tok.p .at] := TokIs.single tat _ (by simp [astOfV, hkat])
  have hnm : TokIs [tn] [Ast.Tok.name tn.data] := TokIs.single tn _ (by simp [astOfV, hkn])
  rcases hargs with ⟨vs, ea, hne, ha1, ha2, rfl, ha4⟩ | ⟨rfl, rfl⟩
  · refine ⟨tn.data, vs, rep, lead, first, rest, tat.data, ton.data, [ea], e7, el, ?_, hvn, ha2, by simp, Or.inr ⟨ea, rfl, ha4⟩,
      hrepE, hel⟩
    have := hat.append (hnm.append (ha1.append (hr1.append hon)))
    simpa [tArgsDef_ne vs hne, List.append_assoc] using this
  · refine ⟨tn.data, [], rep, lead, first, rest, tat.data, ton.data, [], e7, el, ?_, hvn, rfl, by simp, Or.inl ⟨rfl, rfl⟩,
      hrepE, hel⟩
    have := hat.append (hnm.append (hr1.append hon))
    simpa [Ast.tArgsDef, List.append_assoc] using this

theorem tr_directiveDefinition (n : Nat) :
    Tr NoE (DefStart "directive") (directiveDefinition n)
      (fun _ cs e => ∃ (desc : Option Ast.Str) (nm : Ast.Str) (args : List Ast.InputValueDef) (rep lead : Bool) (first : Ast.Str)
        (rest : List Ast.Str) (ed : Elem), TokIs cs (LooseDef.toks (.directive desc nm args rep lead first rest)) ∧
        Ast.wfIVDs args = true ∧ e = [ed] ∧ DefTree (.directive desc nm args rep lead first rest) ed) := by
  rw [directiveDefinition_eq]
  have h2 := tr_descKwEntered early_false "directive" kwWord_directive "directive_KW" (by decide) _ _ (tr_dAt n (H := fun _ => True))
  refine (tr_withNodeL early_false "DIRECTIVE_DEFINITION" (defStart_sig kwWord_directive) h2).mono (fun _ h => h) ?_
  rintro _ cs e ⟨inner, rfl, desc, c1, c2, pre, e2, rfl, hin, hd1, hd2, c3, c4, e3, e4, rfl, rfl, hkw,
    nm, args, rep, lead, first, rest, dat, don, ta, trep, el, ht1, hv, hwf, rfl, hta, hrep, hel⟩
  obtain ⟨hk1, hk2⟩ := kwPartT_toks hkw
  obtain ⟨tk, _, _, _, rfl⟩ : ∃ t : Tok, t.data = "directive".toList ∧ t.kind = .name ∧ c3 = [t] ∧
      e3 = [Elem.tok "directive_KW" t.data] := by simpa [KwPartT] using hkw
  refine ⟨desc, nm, args, rep, lead, first, rest, _, ?_, hwf, rfl, inner, pre ++ [Elem.tok "directive_KW" tk.data, Elem.tok "AT" dat],
    ta, trep, don, el, rfl, hv, ⟨pre, _, rfl, hd2, FromCst.allToks_cons _ _ (FromCst.allToks_cons _ _ FromCst.allToks_nil)⟩, ?_,
    hta, hrep, hel, by rw [hin]; simp⟩
  · have := hd1.append (hk1.append ht1)
    simpa [LooseDef.toks, directiveToks, List.append_assoc] using this
  · rcases FromCst.descPre_kinds hd2 with rfl | ⟨c, rfl⟩ <;> simp [tokP, FromCst.isNodeE, FromCst.kindE]

end Apollo.Parse
