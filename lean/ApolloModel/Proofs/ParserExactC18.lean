import ApolloModel.Proofs.ParserExactC17
import ApolloModel.Proofs.ParserComplete18
/-
EXACT-BUDGET COPY of ParserComplete18 (namespace Apollo.Parse.Exact, exact `vdepth`).
C05 growth (completeness of the whole Document grammar), part 18: input value definitions, arguments definitions,
field definitions, enum value definitions and their braced lists.
-/
set_option linter.unusedSimpArgs false
namespace Apollo.Parse.Exact
open Apollo.Rowan hiding Str
open Apollo.Lex hiding Str

/-- the optional description in front of a definition or an item -/
def LDesc (_ : Nat) (x : List Ast.Tok) : Prop := ∃ d, x = [.str d]

theorem ldesc_head {b : Nat} {x : List Ast.Tok} (h : LDesc b x) : ∃ a x', x = a :: x' ∧ kindOfA a = .stringValue := by
  obtain ⟨d, rfl⟩ := h; exact ⟨_, _, rfl, rfl⟩

theorem tDescription_split (b : Nat) (desc : Option Ast.Str) : LDesc b (Ast.tDescription desc) ∨ Ast.tDescription desc = [] := by
  cases desc with
  | none => right; rfl
  | some d => left; exact ⟨d, rfl⟩

/-- `Description? rest` where `rest` is never empty and does not start with a string -/
theorem cmp_optDesc {α : Type} {Hk : Kind → Prop} (rest : PI α) {Lr : Nat → List Ast.Tok → Prop} {F : Kind → Prop} {Q : α → Prop}
    (hr : Cmp (fun _ => True) rest Lr F Q) (hrhead : ∀ b a x, Lr b (a :: x) → kindOfA a ≠ .stringValue)
    (hne : ∀ b, ¬ Lr b []) :
    Cmp Hk (optKind .stringValue description rest)
      (fun b x => ∃ desc x2, x = Ast.tDescription desc ++ x2 ∧ Lr b x2) F Q := by
  have := cmp_optKind_ne (Hk := Hk) (F := F) .stringValue description rest cmp_description hr
    (fun b x h => ldesc_head (b := b) h) (fun b a x h => ⟨hrhead b a x h, trivial⟩) hne (fun _ h => h)
  refine this.mono (fun _ h => h) ?_ (fun _ h => h) (fun _ h => h)
  rintro b x ⟨desc, x2, rfl, h⟩
  exact ⟨_, x2, rfl, (tDescription_split b desc).imp id id, h⟩

/-! ### input value definition -/

def ivdFit (b : Nat) (v : Ast.InputValueDef) : Prop :=
  tyDepth v.ty ≤ b ∧ (∀ d, v.default = some d → valueOk true d = true ∧ vdepth d ≤ b) ∧ dirsFit true b v.dirs

def LIVD (b : Nat) (x : List Ast.Tok) : Prop := ∃ v : Ast.InputValueDef, x = Ast.tIVD v ∧ ivdFit b v

def LIVDcore (b : Nat) (x : List Ast.Tok) : Prop :=
  ∃ x1 x2, x = x1 ++ x2 ∧ (∃ n, x1 = [.name n]) ∧ ∃ x3, x2 = .p .colon :: x3 ∧ LVarTail b x3

theorem cmp_inputValueDefinition (n : Nat) : Cmp (fun _ => True) (inputValueDefinition n) LIVD Fvd (fun _ => True) := by
  rw [inputValueDefinition_eq]
  refine cmp_withNode _ ?_
  unfold ivdBody
  have hcore : Cmp (fun _ => True) (name >>= fun _ => ivdColon n) LIVDcore Fvd (fun _ => True) :=
    cmp_bind (Hk := fun _ => True) (F1 := fun _ => True) cmp_name (fun _ _ => cmp_ivdColon n)
      (fun _ _ _ _ => trivial) (fun _ _ => trivial) (fun _ h => h)
  have := cmp_optDesc (Hk := fun _ => True) _ hcore
    (by rintro b a x ⟨x1, x2, e, ⟨nn, rfl⟩, _⟩; simp only [List.cons_append, List.nil_append] at e; injection e with e _; subst e; simp [kindOfA])
    (by rintro b ⟨x1, x2, e, ⟨nn, rfl⟩, _⟩; simp at e)
  refine this.mono (fun _ h => h) ?_ (fun _ h => h) (fun _ h => h)
  rintro b x ⟨v, rfl, hty, hdef, hdirs⟩
  refine ⟨v.desc, _, by simp [Ast.tIVD, List.append_assoc], [.name v.name], _, rfl, ⟨_, rfl⟩, _, rfl,
    Ast.tTy v.ty, _, rfl, ⟨v.ty, rfl, hty⟩, Ast.tDefault v.default, Ast.tDirectives v.dirs, rfl, ?_, ⟨v.dirs, rfl, hdirs⟩⟩
  cases hd : v.default with
  | none => right; rfl
  | some d => left; exact ⟨d, rfl, hdef d hd⟩

theorem livd_head {b : Nat} {x : List Ast.Tok} (h : LIVD b x) : ∃ a x', x = a :: x' ∧ isNameOrStringK (kindOfA a) = true := by
  obtain ⟨v, rfl, _⟩ := h
  cases hd : v.desc with
  | none => exact ⟨.name v.name, _, by simp [Ast.tIVD, hd, Ast.tDescription, List.append_assoc]; rfl, rfl⟩
  | some d => exact ⟨.str d, _, by simp [Ast.tIVD, hd, Ast.tDescription, List.append_assoc]; rfl, rfl⟩

theorem fvd_of_nameOrString (k : Kind) (h : isNameOrStringK k = true) : Fvd k := by
  simp only [isNameOrStringK, Bool.or_eq_true, beq_iff_eq] at h
  rcases h with h | h <;> subst h <;> simp [Fvd]

def ivdItems : List Ast.InputValueDef → List (List Ast.Tok)
  | [] => []
  | v :: r => Ast.tIVD v :: ivdItems r

theorem ivdItems_flatten : ∀ vs, (ivdItems vs).flatten = Ast.tIVDItems vs
  | [] => rfl
  | v :: r => by simp [ivdItems, Ast.tIVDItems, ivdItems_flatten r]

theorem ivdItems_ok (b : Nat) : ∀ vs, (∀ v ∈ vs, ivdFit b v) → ∀ i ∈ ivdItems vs, LIVD b i
  | [], _ => by intro i hi; cases hi
  | v :: r, h => by
    intro i hi
    simp only [ivdItems, List.mem_cons] at hi
    rcases hi with rfl | hi
    · exact ⟨v, rfl, h v (by simp)⟩
    · exact ivdItems_ok b r (fun x hx => h x (by simp [hx])) i hi

theorem isNameOrString_of (k : Kind) (h : isNameOrStringK k = true) : isNameOrString (some k) = true := by
  simpa [isNameOrString, isNameOrStringK] using h

/-- `( InputValueDefinition+ )` -/
def LArgsDef (b : Nat) (x : List Ast.Tok) : Prop := ∃ args, args ≠ [] ∧ x = Ast.tArgsDef args ∧ ∀ a ∈ args, ivdFit b a

theorem cmp_argumentsDefinitionBody (n : Nat) :
    Cmp (fun _ => True) (argumentsDefinitionBody n) LArgsDef (fun _ => True) (fun _ => True) := by
  rw [argumentsDefinitionBody_eq]
  have := cmp_braced "L_PAREN" isNameOrString isNameOrStringK (inputValueDefinition n) .rParen "R_PAREN" (.p .lParen) (.p .rParen)
    LIVD Fvd (cmp_inputValueDefinition n) (fun b x h => livd_head h) fvd_of_nameOrString isNameOrString_of rfl rfl (by simp [Fvd])
  refine this.mono (fun _ h => h) ?_ (fun _ h => h) (fun _ h => h)
  rintro b x ⟨args, hne, rfl, hfit⟩
  cases args with
  | nil => exact absurd rfl hne
  | cons v r =>
    refine ⟨Ast.tIVD v, ivdItems r, ivdItems_ok b (v :: r) hfit, ?_⟩
    simp [Ast.tArgsDef, Ast.tIVDItems, ivdItems_flatten]

theorem cmp_argumentsDefinition (n : Nat) :
    Cmp (fun _ => True) (argumentsDefinition n) LArgsDef (fun _ => True) (fun _ => True) := by
  unfold argumentsDefinition
  exact cmp_withNode _ (cmp_argumentsDefinitionBody n)

theorem largsDef_head {b : Nat} {x : List Ast.Tok} (h : LArgsDef b x) : ∃ a x', x = a :: x' ∧ kindOfA a = .lParen := by
  obtain ⟨args, hne, rfl, _⟩ := h
  cases args with
  | nil => exact absurd rfl hne
  | cons v r => exact ⟨.p .lParen, Ast.tIVDItems (v :: r) ++ [.p .rParen], by simp [Ast.tArgsDef], rfl⟩

/-- `{ InputValueDefinition+ }` -/
def LInputFields (b : Nat) (x : List Ast.Tok) : Prop :=
  ∃ fs, fs ≠ [] ∧ x = Ast.tBraced (Ast.tIVDItems fs) fs.isEmpty ∧ ∀ a ∈ fs, ivdFit b a

theorem cmp_inputFieldsDefinition (n : Nat) :
    Cmp (fun _ => True) (inputFieldsDefinition n) LInputFields (fun _ => True) (fun _ => True) := by
  rw [inputFieldsDefinition_eq]
  refine cmp_withNode _ ?_
  have := cmp_braced "L_CURLY" isNameOrString isNameOrStringK (inputValueDefinition n) .rCurly "R_CURLY" (.p .lCurly) (.p .rCurly)
    LIVD Fvd (cmp_inputValueDefinition n) (fun b x h => livd_head h) fvd_of_nameOrString isNameOrString_of rfl rfl (by simp [Fvd])
  refine this.mono (fun _ h => h) ?_ (fun _ h => h) (fun _ h => h)
  rintro b x ⟨args, hne, rfl, hfit⟩
  cases args with
  | nil => exact absurd rfl hne
  | cons v r =>
    refine ⟨Ast.tIVD v, ivdItems r, ivdItems_ok b (v :: r) hfit, ?_⟩
    simp [Ast.tBraced, Ast.tIVDItems, ivdItems_flatten]

/-! ### field definition -/

def fieldFit (b : Nat) (f : Ast.FieldDef) : Prop :=
  (∀ a ∈ f.args, ivdFit b a) ∧ tyDepth f.ty ≤ b ∧ dirsFit true b f.dirs

def LFieldDef (b : Nat) (x : List Ast.Tok) : Prop := ∃ f : Ast.FieldDef, x = Ast.tFieldDef f ∧ fieldFit b f

def Ffd (k : Kind) : Prop := k ≠ .bang ∧ k ≠ .at ∧ k ≠ .lParen

/-- non-empty directive lists, `Const` or not -/
def LDirsNeB (c : Bool) (b : Nat) (x : List Ast.Tok) : Prop := ∃ ds, ds ≠ [] ∧ x = Ast.tDirectives ds ∧ dirsFit c b ds

theorem cmp_directivesNeB (n : Nat) (c : Bool) :
    Cmp (fun _ => True) (directives n c) (LDirsNeB c) (fun k => k ≠ .at ∧ k ≠ .lParen) (fun _ => True) :=
  (directives_complete n c).mono (fun _ h => h) (by rintro b x ⟨ds, _, rfl, h⟩; exact ⟨ds, rfl, h⟩) (fun _ h => h) (fun _ h => h)

theorem ldirsNeB_head {c : Bool} {b : Nat} {x : List Ast.Tok} (h : LDirsNeB c b x) : ∃ a x', x = a :: x' ∧ kindOfA a = .at := by
  obtain ⟨ds, hne, rfl, _⟩ := h
  obtain ⟨x', e⟩ := tDirectives_head ds hne
  exact ⟨_, x', e, rfl⟩

theorem ldirsB_split (c : Bool) (b : Nat) (ds : List Ast.Directive) (h : dirsFit c b ds) :
    LDirsNeB c b (Ast.tDirectives ds) ∨ Ast.tDirectives ds = [] := by
  by_cases hne : ds = []
  · subst hne; right; rfl
  · left; exact ⟨ds, hne, rfl, h⟩

theorem cmp_peekNop : Cmp (fun _ => True) peekNop (fun _ x => x = []) (fun _ => True) (fun _ => True) := by
  unfold peekNop
  apply cmp_peek
  intro k _
  exact (cmp_pure _ _ ()).mono (fun _ _ => trivial) (fun _ _ h => h) (fun _ h => h) (fun _ _ => trivial)

def LFdType (b : Nat) (x : List Ast.Tok) : Prop :=
  ∃ x1 x2, x = x1 ++ x2 ∧ LTy b x1 ∧ ∃ y1 y2, x2 = y1 ++ y2 ∧ (LDirsNeB true b y1 ∨ y1 = []) ∧ y2 = []

theorem cmp_fdType (n : Nat) : Cmp (fun _ => True) (fdType n) LFdType Ffd (fun _ => True) := by
  unfold fdType
  have hd := cmp_optKind (Hk := fun _ => True) (F := fun k => k ≠ Kind.at ∧ k ≠ Kind.lParen) .at (directives n true) peekNop
    (cmp_directivesNeB n true) cmp_peekNop (fun b x h => ldirsNeB_head h) (by rintro b a x h; cases h)
    (fun k h => ⟨h.1, h, trivial⟩)
  have hb : Cmp (fun _ => True) (ty n >>= fun _ => optKind .at (directives n true) peekNop) LFdType Ffd (fun _ => True) :=
    cmp_bind (Hk := fun _ => True) (cmp_ty n) (fun _ _ => hd)
      (by rintro b a x2 ⟨y1, y2, e, h1, rfl⟩
          rcases h1 with h1 | rfl
          · obtain ⟨a', x', rfl, hk⟩ := ldirsNeB_head h1
            simp only [List.append_nil] at e
            injection e with e _
            rw [e, hk]; decide
          · simp at e)
      (fun k h => h.1) (fun k h => ⟨h.2.1, h.2.2⟩)
  apply cmp_peek
  intro k _
  apply cmp_ite
  · intro _
    exact hb.mono (fun _ _ => trivial) (fun _ _ h => h) (fun _ h => h) (fun _ h => h)
  · intro hk
    apply cmp_absurd
    rintro b x cc q0 ⟨x1, x2, rfl, ⟨t, rfl, _⟩, _⟩ hs _ hkk
    obtain ⟨a, x', e, hka⟩ := tTy_head t
    rw [e] at hs
    obtain ⟨tk, tl, rfl, hta⟩ := spells_head (x := x' ++ x2) (by simpa using hs)
    simp only [headK] at hkk
    rw [kind_of_astOfV hta] at hkk
    rcases hka with h | h <;> simp [← hkk, h] at hk

theorem cmp_fdColon (n : Nat) :
    Cmp (fun _ => True) (fdColon n) (fun b x => ∃ x2, x = .p .colon :: x2 ∧ LFdType b x2) Ffd (fun _ => True) := by
  unfold fdColon
  apply cmp_peek
  intro k _
  apply cmp_ite
  · intro _
    have := cmp_bind (Hk := fun k' => k' = k) (F := Ffd) (F1 := fun _ => True)
      ((cmp_bump "COLON").mono (fun _ _ => trivial) (fun _ _ h => h) (fun _ h => h) (fun _ h => h))
      (fun _ _ => cmp_fdType n) (fun _ _ _ _ => trivial) (fun _ _ => trivial) (fun _ h => h)
    refine this.mono (fun _ h => h) ?_ (fun _ h => h) (fun _ h => h)
    rintro b x ⟨x2, rfl, h⟩
    exact ⟨[.p .colon], x2, rfl, ⟨_, rfl⟩, h⟩
  · intro hk
    apply cmp_absurd
    rintro b x cc q0 ⟨x2, rfl, _⟩ hs _ hkk
    obtain ⟨tk, tl, rfl, hta⟩ := spells_head hs
    simp only [headK] at hkk
    rw [kind_of_astOfV hta] at hkk
    simp [← hkk, kindOfA] at hk

def LFdColon (b : Nat) (x : List Ast.Tok) : Prop := ∃ x2, x = .p .colon :: x2 ∧ LFdType b x2
def LFdArgs (b : Nat) (x : List Ast.Tok) : Prop := ∃ x1 x2, x = x1 ++ x2 ∧ (LArgsDef b x1 ∨ x1 = []) ∧ LFdColon b x2
def LFdCore (b : Nat) (x : List Ast.Tok) : Prop := ∃ x1 x2, x = x1 ++ x2 ∧ (∃ n, x1 = [.name n]) ∧ LFdArgs b x2

theorem cmp_fieldDefinition (n : Nat) : Cmp (fun _ => True) (fieldDefinition n) LFieldDef Ffd (fun _ => True) := by
  rw [fieldDefinition_eq]
  refine cmp_withNode _ ?_
  unfold fdBody
  have hargs : Cmp (fun _ => True) (optKind .lParen (argumentsDefinition n) (fdColon n)) LFdArgs Ffd (fun _ => True) :=
    cmp_optKind_ne (Hk := fun _ => True) .lParen (argumentsDefinition n) (fdColon n) (cmp_argumentsDefinition n) (cmp_fdColon n)
      (fun b x h => largsDef_head h)
      (by rintro b a x ⟨x2, e, _⟩; injection e with e _; subst e; simp [kindOfA])
      (by rintro b ⟨x2, e, _⟩; cases e) (fun _ h => h)
  have hcore : Cmp (fun _ => True) (name >>= fun _ => optKind .lParen (argumentsDefinition n) (fdColon n)) LFdCore Ffd (fun _ => True) :=
    cmp_bind (Hk := fun _ => True) (F1 := fun _ => True) cmp_name (fun _ _ => hargs)
      (fun _ _ _ _ => trivial) (fun _ _ => trivial) (fun _ h => h)
  have := cmp_optDesc (Hk := fun _ => True) _ hcore
    (by rintro b a x ⟨x1, x2, e, ⟨nn, rfl⟩, _⟩; simp only [List.cons_append, List.nil_append] at e; injection e with e _; subst e; simp [kindOfA])
    (by rintro b ⟨x1, x2, e, ⟨nn, rfl⟩, _⟩; simp at e)
  refine this.mono (fun _ h => h) ?_ (fun _ h => h) (fun _ h => h)
  rintro b x ⟨f, rfl, hargsfit, hty, hdirs⟩
  refine ⟨f.desc, _, by simp [Ast.tFieldDef, List.append_assoc], [.name f.name], _, rfl, ⟨_, rfl⟩,
    Ast.tArgsDef f.args, _, rfl, ?_, _, rfl, Ast.tTy f.ty, Ast.tDirectives f.dirs, rfl, ⟨f.ty, rfl, hty⟩, Ast.tDirectives f.dirs, [], (by simp),
    ldirsB_split true b f.dirs hdirs, rfl⟩
  by_cases ha : f.args = []
  · right; rw [ha]; rfl
  · left; exact ⟨f.args, ha, rfl, hargsfit⟩

theorem lfieldDef_head {b : Nat} {x : List Ast.Tok} (h : LFieldDef b x) : ∃ a x', x = a :: x' ∧ isNameOrStringK (kindOfA a) = true := by
  obtain ⟨v, rfl, _⟩ := h
  cases hd : v.desc with
  | none => exact ⟨.name v.name, _, by simp [Ast.tFieldDef, hd, Ast.tDescription, List.append_assoc]; rfl, rfl⟩
  | some d => exact ⟨.str d, _, by simp [Ast.tFieldDef, hd, Ast.tDescription, List.append_assoc]; rfl, rfl⟩

theorem ffd_of_nameOrString (k : Kind) (h : isNameOrStringK k = true) : Ffd k := by
  simp only [isNameOrStringK, Bool.or_eq_true, beq_iff_eq] at h
  rcases h with h | h <;> subst h <;> simp [Ffd]

def fdItems : List Ast.FieldDef → List (List Ast.Tok)
  | [] => []
  | v :: r => Ast.tFieldDef v :: fdItems r

theorem fdItems_flatten : ∀ vs, (fdItems vs).flatten = Ast.tFieldDefItems vs
  | [] => rfl
  | v :: r => by simp [fdItems, Ast.tFieldDefItems, fdItems_flatten r]

theorem fdItems_ok (b : Nat) : ∀ vs, (∀ v ∈ vs, fieldFit b v) → ∀ i ∈ fdItems vs, LFieldDef b i
  | [], _ => by intro i hi; cases hi
  | v :: r, h => by
    intro i hi
    simp only [fdItems, List.mem_cons] at hi
    rcases hi with rfl | hi
    · exact ⟨v, rfl, h v (by simp)⟩
    · exact fdItems_ok b r (fun x hx => h x (by simp [hx])) i hi

/-- `{ FieldDefinition+ }` -/
def LFields (b : Nat) (x : List Ast.Tok) : Prop :=
  ∃ fs, fs ≠ [] ∧ x = Ast.tBraced (Ast.tFieldDefItems fs) fs.isEmpty ∧ ∀ a ∈ fs, fieldFit b a

theorem cmp_fieldsDefinition (n : Nat) :
    Cmp (fun _ => True) (fieldsDefinition n) LFields (fun _ => True) (fun _ => True) := by
  rw [fieldsDefinition_eq]
  refine cmp_withNode _ ?_
  have := cmp_braced "L_CURLY" isNameOrString isNameOrStringK (fieldDefinition n) .rCurly "R_CURLY" (.p .lCurly) (.p .rCurly)
    LFieldDef Ffd (cmp_fieldDefinition n) (fun b x h => lfieldDef_head h) ffd_of_nameOrString isNameOrString_of rfl rfl (by simp [Ffd])
  refine this.mono (fun _ h => h) ?_ (fun _ h => h) (fun _ h => h)
  rintro b x ⟨fs, hne, rfl, hfit⟩
  cases fs with
  | nil => exact absurd rfl hne
  | cons v r =>
    refine ⟨Ast.tFieldDef v, fdItems r, fdItems_ok b (v :: r) hfit, ?_⟩
    simp [Ast.tBraced, Ast.tFieldDefItems, fdItems_flatten]

/-! ### enum values -/

def enumValFit (b : Nat) (v : Ast.EnumValueDef) : Prop := isValueKeyword v.value = false ∧ dirsFit true b v.dirs

def LEnumVal (b : Nat) (x : List Ast.Tok) : Prop := ∃ v : Ast.EnumValueDef, x = Ast.tEnumValueDef v ∧ enumValFit b v

def Fdir (k : Kind) : Prop := k ≠ .at ∧ k ≠ .lParen

def LEvCore (b : Nat) (x : List Ast.Tok) : Prop :=
  ∃ x1 x2, x = x1 ++ x2 ∧ (∃ n, x1 = [.name n] ∧ isValueKeyword n = false) ∧ LDirs true b x2

theorem cmp_enumValueDefinition (n : Nat) : Cmp (fun _ => True) (enumValueDefinition n) LEnumVal Fdir (fun _ => True) := by
  rw [enumValueDefinition_eq]
  have hcore : Cmp (fun _ => True) (enumValue >>= fun _ => optDirsEnd n) LEvCore Fdir (fun _ => True) :=
    cmp_bind (Hk := fun _ => True) (F1 := fun _ => True) cmp_enumValue (fun _ _ => cmp_optDirsEnd n)
      (fun _ _ _ _ => trivial) (fun _ _ => trivial) (fun _ h => h)
  have hbody := cmp_optDesc (Hk := fun _ => True) _ hcore
    (by rintro b a x ⟨x1, x2, e, ⟨nn, rfl, _⟩, _⟩; simp only [List.cons_append, List.nil_append] at e; injection e with e _; subst e; simp [kindOfA])
    (by rintro b ⟨x1, x2, e, ⟨nn, rfl, _⟩, _⟩; simp at e)
  have hL : ∀ b x, LEnumVal b x → ∃ desc x2, x = Ast.tDescription desc ++ x2 ∧ LEvCore b x2 := by
    rintro b x ⟨v, rfl, hk, hd⟩
    exact ⟨v.desc, _, rfl, [.name v.value], _, rfl, ⟨_, rfl, hk⟩, v.dirs, rfl, hd⟩
  apply cmp_peek
  intro k _
  apply cmp_ite
  · intro _
    exact (cmp_withNode "ENUM_VALUE_DEFINITION" (by unfold evBody; exact hbody)).mono (fun _ _ => trivial) hL (fun _ h => h) (fun _ h => h)
  · intro hk
    apply cmp_absurd
    rintro b x cc q0 ⟨v, rfl, _⟩ hs _ hkk
    cases hd : v.desc with
    | none =>
      obtain ⟨tk, tl, rfl, hta⟩ := spells_head (a := .name v.value) (x := Ast.tDirectives v.dirs) (by simpa [Ast.tEnumValueDef, hd, Ast.tDescription] using hs)
      simp only [headK] at hkk
      rw [kind_of_astOfV hta] at hkk
      simp [← hkk, kindOfA, isNameOrString] at hk
    | some d =>
      obtain ⟨tk, tl, rfl, hta⟩ := spells_head (a := .str d) (x := .name v.value :: Ast.tDirectives v.dirs) (by simpa [Ast.tEnumValueDef, hd, Ast.tDescription] using hs)
      simp only [headK] at hkk
      rw [kind_of_astOfV hta] at hkk
      simp [← hkk, kindOfA, isNameOrString] at hk

theorem lenumVal_head {b : Nat} {x : List Ast.Tok} (h : LEnumVal b x) : ∃ a x', x = a :: x' ∧ isNameOrStringK (kindOfA a) = true := by
  obtain ⟨v, rfl, _⟩ := h
  cases hd : v.desc with
  | none => exact ⟨.name v.value, _, by simp [Ast.tEnumValueDef, hd, Ast.tDescription]; rfl, rfl⟩
  | some d => exact ⟨.str d, _, by simp [Ast.tEnumValueDef, hd, Ast.tDescription]; rfl, rfl⟩

theorem fdir_of_nameOrString (k : Kind) (h : isNameOrStringK k = true) : Fdir k := by
  simp only [isNameOrStringK, Bool.or_eq_true, beq_iff_eq] at h
  rcases h with h | h <;> subst h <;> simp [Fdir]

def evItems : List Ast.EnumValueDef → List (List Ast.Tok)
  | [] => []
  | v :: r => Ast.tEnumValueDef v :: evItems r

theorem evItems_flatten : ∀ vs, (evItems vs).flatten = Ast.tEnumValueDefItems vs
  | [] => rfl
  | v :: r => by simp [evItems, Ast.tEnumValueDefItems, evItems_flatten r]

theorem evItems_ok (b : Nat) : ∀ vs, (∀ v ∈ vs, enumValFit b v) → ∀ i ∈ evItems vs, LEnumVal b i
  | [], _ => by intro i hi; cases hi
  | v :: r, h => by
    intro i hi
    simp only [evItems, List.mem_cons] at hi
    rcases hi with rfl | hi
    · exact ⟨v, rfl, h v (by simp)⟩
    · exact evItems_ok b r (fun x hx => h x (by simp [hx])) i hi

/-- `{ EnumValueDefinition+ }` -/
def LEnumVals (b : Nat) (x : List Ast.Tok) : Prop :=
  ∃ vs, vs ≠ [] ∧ x = Ast.tBraced (Ast.tEnumValueDefItems vs) vs.isEmpty ∧ ∀ a ∈ vs, enumValFit b a

theorem cmp_enumValuesDefinition (n : Nat) :
    Cmp (fun _ => True) (enumValuesDefinition n) LEnumVals (fun _ => True) (fun _ => True) := by
  rw [enumValuesDefinition_eq]
  refine cmp_withNode _ ?_
  have := cmp_braced "L_CURLY" isNameOrString isNameOrStringK (enumValueDefinition n) .rCurly "R_CURLY" (.p .lCurly) (.p .rCurly)
    LEnumVal Fdir (cmp_enumValueDefinition n) (fun b x h => lenumVal_head h) fdir_of_nameOrString isNameOrString_of rfl rfl (by simp [Fdir])
  refine this.mono (fun _ h => h) ?_ (fun _ h => h) (fun _ h => h)
  rintro b x ⟨fs, hne, rfl, hfit⟩
  cases fs with
  | nil => exact absurd rfl hne
  | cons v r =>
    refine ⟨Ast.tEnumValueDef v, evItems r, evItems_ok b (v :: r) hfit, ?_⟩
    simp [Ast.tBraced, Ast.tEnumValueDefItems, evItems_flatten]

end Apollo.Parse.Exact
