import ApolloModel.Proofs.ParserTreeDef9
/-
C08 growth (pipeline), stage (v), part 10: the parser side of the schema definition, the schema extension and the
directive definition: every error-free run consumed the tokens of ONE loose definition `l` and appended ONE element, a
`DefTree l`; the well-formedness facts are exported.
-/
set_option linter.unusedSimpArgs false
set_option linter.unusedVariables false
namespace Apollo.Parse
open Apollo.Rowan hiding Str
open Apollo.Lex hiding Str
open Apollo.FromCst (TyTree DescPre OptDirs All2 Hd AllToks NamedDefTree DefTree SchemaLike DirDefTree RootsPart RootTree LocsNode
  OptIvds IvdsNode tokP)

/-! ### `peek_while_kind` with a captured flag -/

theorem tr_kindFlagLoop {E : PState → Prop} (hE : Early E) (k : Kind) (item : PI Unit) (Q : List Tok → List Elem → Prop)
    (hitem : Tr E (KindP (· == k)) item (fun _ => Q)) : ∀ fuel flag,
    Tr E (fun _ => True) (peekWhileKindFlagLoop k item fuel flag)
      (fun res cs e => ∃ items : List (List Tok × List Elem), cs = (items.map (·.1)).flatten ∧ e = (items.map (·.2)).flatten ∧
        (∀ i ∈ items, Q i.1 i.2) ∧ res = (flag || !items.isEmpty)) := by
  intro fuel
  induction fuel with
  | zero =>
    intro flag
    exact ⟨good_flagLoop k item hitem.1 0 flag, by intro s a s' _ _ _ _ _ h; simp [peekWhileKindFlagLoop, PI.outOfFuel] at h⟩
  | succ fuel ih =>
    intro flag
    refine ⟨good_flagLoop k item hitem.1 (fuel + 1) flag, ?_⟩
    intro s a s' w hi he hlq _ h hnd
    unfold peekWhileKindFlagLoop at h
    obtain ⟨ko, sP, hp, h2⟩ := bind_dec peek _ s s' a h
    obtain ⟨o, p', hko⟩ := peek_obs s sP ko w hp
    subst hko
    have heP : EofEnd sP := eofEnd_eat he p'.eat (by intro x hx; cases hx)
    have hiP := (run_inv_added peek s hi _ sP hp).1
    have hbP : sP.builder = s.builder := keeps_peek s _ sP hp
    have stop : a = flag → s' = sP → TrRes E s s' (fun cs e => ∃ items : List (List Tok × List Elem),
        cs = (items.map (·.1)).flatten ∧ e = (items.map (·.2)).flatten ∧ (∀ i ∈ items, Q i.1 i.2) ∧ a = (flag || !items.isEmpty)) := by
      intro ea e
      rw [e]
      exact ⟨[], [], (by rw [p'.toks]; rfl), (by intro x hx; cases hx), heP, by rw [hbP]; simp,
        Or.inl ⟨[], rfl, rfl, (by intro i hi'; cases hi'), by rw [ea]; simp⟩⟩
    cases o with
    | none =>
      simp only [Option.map_none] at h2
      rw [run_pure] at h2
      injection h2 with h2a h2
      exact stop h2a.symm h2.symm
    | some t =>
      simp only [Option.map_some] at h2
      by_cases hpk : (t.kind != k) = true
      · simp only [hpk, if_true] at h2
        rw [run_pure] at h2
        injection h2 with h2a h2
        exact stop h2a.symm h2.symm
      · simp only [hpk, Bool.false_eq_true, if_false] at h2
        have hkk : (t.kind == k) = true := by
          cases hh : (t.kind == k) with
          | true => rfl
          | false => simp [bne, hh] at hpk
        have h3 := getCurrent_dec _ sP s' a h2
        obtain ⟨_, sI, hit, h4⟩ := bind_dec item _ sP s' a h3
        have h5 := getCurrent_dec _ sI s' a h4
        have aI := hitem.1 sP () sI p'.w hit
        by_cases hsame : (sP.current == sI.current) = true
        · simp only [hsame, if_true] at h5
          exact absurd h5 (stuck_not_ok _ _ _)
        · simp only [hsame, Bool.false_eq_true, if_false] at h5
          have hndI : ¬ Doomed sI := fun d => hnd ((good_flagLoop k item hitem.1 fuel true sI a s' aI.w h5).doom d)
          have hq : KindP (· == k) (Toks sP) := ⟨t, by rw [p'.toks]; exact p'.head.symm, hkk⟩
          have hiI := (run_inv_added item sP hiP () sI hit).1
          obtain ⟨c1, d1, t1, n1, e1, b1, r1⟩ := hitem.2 sP () sI p'.w hiP heP (hlq.of_eq p'.toks) hq hit hndI
          obtain ⟨c2, d2, t2, n2, e2, b2, r2⟩ := (ih true).2 sI a s' aI.w hiI e1
            (LQ.suffix (cs := c1) (by rw [← t1, p'.toks]; exact hlq)) trivial h5 hnd
          refine ⟨c1 ++ c2, d1 ++ d2, by rw [← p'.toks, t1, t2, List.append_assoc], noEof_append n1 n2, e2,
            by rw [b2, b1, hbP, List.append_assoc], ?_⟩
          rcases r1 with r1 | ev
          · rcases r2 with ⟨items, hc, hee, hall, hres⟩ | ev2
            · left
              refine ⟨(sig c1, sigE d1) :: items, by rw [sig_append, hc]; rfl, by rw [sigE_append, hee]; rfl, ?_, ?_⟩
              · intro i hi'
                rcases List.mem_cons.mp hi' with rfl | hi'
                · exact r1
                · exact hall i hi'
              · rw [hres]; simp
            · exact Or.inr ev2
          · exact Or.inr (hE.carries sI s' c2 e1 hndI ev t2 n2)

/-! ### the braces block of the schema definition / extension -/

theorem items_roots : ∀ items : List (List Tok × List Elem), (∀ i ∈ items, RootR i.1 i.2) →
    ∃ (roots : List (Ast.OpType × Option Ast.Str)), TokIs (items.map (·.1)).flatten (tRootOpItemsF roots) ∧
      All2 (fun e r => RootTree r e) (items.map (·.2)).flatten roots ∧ roots.length = items.length
  | [], _ => ⟨[], TokIs.nil, All2.nil, rfl⟩
  | i :: items, h => by
    obtain ⟨roots, h1, h2, h3⟩ := items_roots items (fun j hj => h j (List.mem_cons_of_mem _ hj))
    obtain ⟨r, er, hr1, hr2, hr3⟩ := h i List.mem_cons_self
    refine ⟨r :: roots, ?_, ?_, by simp [h3]⟩
    · simp only [List.map_cons, List.flatten_cons, tRootOpItemsF]
      exact hr1.append h1
    · simp only [List.map_cons, List.flatten_cons, hr2]
      exact All2.cons hr3 h2

/-- `{ RootOperationTypeDefinition+ }` followed by `K` -/
theorem tr_rootsBlock {α : Type} (K : PI α) (R : α → List Tok → List Elem → Prop) (hK : Tr NoE (fun _ => True) K R) :
    Tr NoE (KindP (· == .lCurly)) (rootsBlock K)
      (fun a cs e => ∃ (roots : List (Ast.OpType × Option Ast.Str)) (to : Tok) (c1 c2 : List Tok) (rs e2 : List Elem),
        roots ≠ [] ∧ cs = to :: (c1 ++ c2) ∧ TokIs (to :: c1) (.p .lCurly :: tRootOpItemsF roots) ∧
        e = Elem.tok "L_CURLY" to.data :: (rs ++ e2) ∧ All2 (fun e r => RootTree r e) rs roots ∧ R a c2 e2) := by
  unfold rootsBlock
  have hloop : ∀ len, Tr NoE (fun _ => True)
      (peekWhileKindFlagLoop .name rootOperationTypeDefinition (len + 3) false >>= fun has => if !has then (err >>= fun _ => K) else K)
      (fun a cs e => ∃ (roots : List (Ast.OpType × Option Ast.Str)) (c1 c2 : List Tok) (rs e2 : List Elem),
        roots ≠ [] ∧ cs = c1 ++ c2 ∧ TokIs c1 (tRootOpItemsF roots) ∧ e = rs ++ e2 ∧ All2 (fun e r => RootTree r e) rs roots ∧
        R a c2 e2) := by
    intro len
    have hl := tr_kindFlagLoop early_false .name rootOperationTypeDefinition RootR (tr_rootOperationTypeDefinition early_false)
      (len + 3) false
    have hK' : ∀ has : Bool, Tr NoE (fun _ => True) (if !has then (err >>= fun _ => K) else K) (fun a cs e => has = true ∧ R a cs e) := by
      intro has
      cases has with
      | true =>
        have : Tr NoE (fun _ => True) K (fun a cs e => true = true ∧ R a cs e) := hK.mono (fun _ h => h) (fun _ _ _ h => ⟨rfl, h⟩)
        simpa using this
      | false => simpa using (tr_never (E := NoE) (H := fun _ => True) (acc_err' (E := E0) K hK.1))
    refine (tr_bind early_false hl hK').mono (fun _ h => h) ?_
    rintro a cs e ⟨has, c1, c2, e1, e2, rfl, rfl, ⟨items, rfl, rfl, hall, hhas⟩, hh, hR⟩
    obtain ⟨roots, h1, h2, h3⟩ := items_roots items hall
    refine ⟨roots, _, c2, _, e2, ?_, rfl, h1, rfl, h2, hR⟩
    intro h0
    rw [h0] at h3
    have : items = [] := List.eq_nil_of_length_eq_zero h3.symm
    rw [this, hh] at hhas
    simp at hhas
  have hb := tr_bind early_false (tr_bump (E := NoE) "L_CURLY" (by decide) (fun t => t.kind = .lCurly)
    (by intro t h; rw [h]; exact ⟨rfl, by decide⟩)) (fun _ => tr_srcLen hloop)
  refine hb.mono (fun q ⟨t, h1, h2⟩ => ⟨t, h1, by simpa using h2⟩) ?_
  rintro a cs e ⟨_, c1, c2, e1, e2, rfl, rfl, ⟨t, hk, _, rfl, rfl⟩, roots, c3, c4, rs, e4, hne, rfl, h3, rfl, h5, h6⟩
  exact ⟨roots, t, c3, c4, rs, e4, hne, rfl, TokIs.cons (by simp [astOfV, hk]) h3, rfl, h5, h6⟩

theorem rootsPart_braces {roots : List (Ast.OpType × Option Ast.Str)} {rs : List Elem} (h : All2 (fun e r => RootTree r e) rs roots)
    (d1 d2 : Rowan.Str) : RootsPart roots (Elem.tok "L_CURLY" d1 :: (rs ++ [Elem.tok "R_CURLY" d2])) :=
  ⟨[Elem.tok "L_CURLY" d1], rs, [Elem.tok "R_CURLY" d2], rfl, FromCst.allToks_cons _ _ FromCst.allToks_nil,
    FromCst.allToks_cons _ _ FromCst.allToks_nil, h⟩

/-- the braces block closed by `}` -/
theorem tr_sBraces {H : List Tok → Prop} :
    Tr NoE H sBraces
      (fun _ cs e => ∃ (roots : List (Ast.OpType × Option Ast.Str)), roots ≠ [] ∧
        TokIs cs (.p .lCurly :: tRootOpItemsF roots ++ [.p .rCurly]) ∧ RootsPart roots e) := by
  unfold sBraces
  refine tr_ifKind .lCurly _ _ _ ?_ tr_err
  refine (tr_rootsBlock _ _ (tr_expect (E := NoE) (H := fun _ => True) .rCurly "R_CURLY" (by decide) rfl (by decide))).mono
    (fun _ h => h) ?_
  rintro _ cs e ⟨roots, to, c1, c2, rs, e2, hne, rfl, h1, rfl, h2, tc, hkc, rfl, rfl⟩
  refine ⟨roots, hne, ?_, rootsPart_braces h2 _ _⟩
  have := h1.append (TokIs.single tc (.p .rCurly) (by simp [astOfV, hkc]))
  simpa using this

/-! ### schema definition -/

theorem tr_schemaDefinition (n : Nat) :
    Tr NoE (DefStart "schema") (schemaDefinition n)
      (fun _ cs e => ∃ (desc : Option Ast.Str) (ds : List Ast.Directive) (roots : List (Ast.OpType × Option Ast.Str))
        (ed : Elem), TokIs cs (LooseDef.toks (.schema desc ds roots)) ∧ Ast.wfDirs ds = true ∧ roots ≠ [] ∧ e = [ed] ∧
        DefTree (.schema desc ds roots) ed) := by
  rw [schemaDefinition_eq]
  have h1 := tr_optDirectives n true sBraces (tr_sBraces (H := fun _ => True)) (H := fun _ => True)
  have h2 := tr_descKwEntered early_false "schema" kwWord_schema "schema_KW" (by decide) _ _ h1
  refine (tr_withNodeL early_false "SCHEMA_DEFINITION" (defStart_sig kwWord_schema) h2).mono (fun _ h => h) ?_
  rintro _ cs e ⟨inner, rfl, desc, c1, c2, pre, e2, rfl, hin, hd1, hd2, c3, c4, e3, e4, rfl, rfl, hkw,
    ds, c5, c6, td, e6, rfl, rfl, hds1, hds2, hds3, roots, hne, hr1, hr2⟩
  obtain ⟨hk1, hk2⟩ := kwPartT_toks hkw
  refine ⟨desc, ds, roots, _, ?_, wfDirs_of_dirsOk true ds hds2, hne, rfl, inner, pre ++ e3, td, e6, rfl,
    ⟨pre, e3, rfl, hd2, hk2⟩, hds3, hr2, by rw [hin]; simp⟩
  have := hd1.append (hk1.append (hds1.append hr1))
  simpa [LooseDef.toks, schemaToks, List.append_assoc] using this

/-! ### schema extension -/

theorem tr_schemaExtBraces (meets : Bool) {H : List Tok → Prop} :
    Tr NoE H (schemaExtBraces meets)
      (fun _ cs e => ∃ (roots : List (Ast.OpType × Option Ast.Str)),
        TokIs cs (Ast.tBraced (tRootOpItemsF roots) roots.isEmpty) ∧ RootsPart roots e) := by
  unfold schemaExtBraces
  refine tr_ifKind .lCurly _ _ _ ?_ ?_
  · have hK := tr_bind early_false (tr_expect (E := NoE) (H := fun _ => True) .rCurly "R_CURLY" (by decide) rfl (by decide))
      (fun _ => tr_extEnd (E := NoE) (H := fun _ => True) true)
    refine (tr_rootsBlock _ _ hK).mono (fun _ h => h) ?_
    rintro _ cs e ⟨roots, to, c1, c2, rs, e2, hne, rfl, h1, rfl, h2, _, c3, c4, e3, e4, rfl, rfl, ⟨tc, hkc, rfl, rfl⟩, rfl, rfl⟩
    refine ⟨roots, ?_, by simpa using rootsPart_braces h2 to.data tc.data⟩
    have hemp : roots.isEmpty = false := by cases roots with | nil => exact absurd rfl hne | cons _ _ => rfl
    have := h1.append (TokIs.single tc (.p .rCurly) (by simp [astOfV, hkc]))
    simpa [Ast.tBraced, hemp] using this
  · refine (tr_extEnd (E := NoE) (H := fun _ => True) meets).mono (fun _ h => h) ?_
    rintro _ cs e ⟨rfl, rfl⟩
    exact ⟨[], by simpa [Ast.tBraced, tRootOpItemsF] using TokIs.nil, FromCst.rootsPart_nil⟩

theorem tr_schemaExtension (n : Nat) :
    Tr NoE (Ext2 "extend" "schema") (schemaExtension n)
      (fun _ cs e => ∃ (ds : List Ast.Directive) (roots : List (Ast.OpType × Option Ast.Str)) (ed : Elem),
        TokIs cs (LooseDef.toks (.schemaExt ds roots)) ∧ Ast.wfDirs ds = true ∧ e = [ed] ∧ DefTree (.schemaExt ds roots) ed) := by
  rw [schemaExtension_eq]
  have hd : Tr NoE (KindP (· == .at)) (directives n true) _ := (tr_directives n true).mono (fun q hq => by
    obtain ⟨t, hh, hk⟩ := hq; unfold HeadK; rw [hh]; simpa using hk) (fun _ _ _ h => h)
  have hdirs0 := tr_optKind2 (E := NoE) early_false (H := fun _ => True) .at (directives n true) (schemaExtBraces true)
    (schemaExtBraces false) _ _ hd (tr_schemaExtBraces true) (tr_schemaExtBraces false)
  have hdirs : Tr NoE (fun _ => True) (extDirs n schemaExtBraces false) _ := hdirs0
  have hb := tr_bump2 "extend" "schema" kwWord_extend kwWord_schema "extend_KW" "schema_KW" (by decide) (by decide) _ _ hdirs
  refine (tr_withNodeL early_false "SCHEMA_EXTENSION" (fun q hl hq => ext2_sig kwWord_extend q ⟨hl, hq⟩) hb).mono (fun _ h => h) ?_
  rintro _ cs e ⟨inner, rfl, t1, t2, c2, e2, hd1, hk1, hd2, hk2, rfl, hin, c3, c4, e3, e4, rfl, rfl, hdr, roots, hr1, hr2⟩
  have hkw := kwE_toks "schema" t1 t2 hd1 hk1 hd2 hk2
  rcases hdr with ⟨ds, ed, hds1, hds2, rfl, hds4⟩ | ⟨rfl, rfl⟩
  · refine ⟨ds, roots, _, ?_, wfDirs_of_dirsOk true ds hds2, rfl, inner, _, [ed], e4, rfl, hd_ext "extend_KW" "schema_KW" t1.data t2.data,
      Or.inr ⟨ed, rfl, hds4⟩, hr2, by rw [hin]; simp⟩
    have := hkw.append (hds1.append hr1)
    simpa [LooseDef.toks, List.append_assoc] using this
  · refine ⟨[], roots, _, ?_, rfl, rfl, inner, _, [], e4, rfl, hd_ext "extend_KW" "schema_KW" t1.data t2.data,
      Or.inl ⟨rfl, rfl⟩, hr2, by rw [hin]; simp⟩
    have := hkw.append hr1
    simpa [LooseDef.toks, Ast.tDirectives, List.append_assoc] using this

end Apollo.Parse
