import ApolloModel.Model.ExecRules
/-
C17, document level: WHERE the typed rules (§5.6 values with §5.8.5, §5.8.3, §5.5.2.3) are applied by the walk of one
operation (`walkSels` / `enterFrag` with `validated_fragments`).  A `Site` is one call of `validate_directives`,
of the argument checks of a field with the field's argument definitions, or of `validate_fragment_spread_type`.
-/
set_option linter.unusedSimpArgs false
set_option linter.unusedVariables false
namespace Apollo.ExecRules
open Apollo Apollo.Spec

/-- a place where the typed rules look at something -/
inductive Site where
  /-- the directives written at a field, spread, inline fragment, fragment definition -/
  | dirs (dirs : List RDir)
  /-- the arguments of a field, with the argument definitions of that field on its parent type -/
  | args (defs : List InDef) (args : List RArg)
  /-- a spread or inline fragment with type condition `tc` inside a selection set of type `against` -/
  | spread (against tc : String)

def Site.diags (s : RSchema) (vars : List RVarDef) : Site → List TDiag
  | .dirs d => dirsDiags s vars d
  | .args defs a => argsDiags s vars defs a
  | .spread t c => spreadDiags s t c

/-- the sites of a selection set of type `ty` itself (fragments not entered): every field defined on its parent type
    with its own argument definitions and — unless it is a composite field without sub-selection — its sub-selection
    under the field's type; every spread of a defined fragment; every inline fragment whose condition is composite -/
def localSites (s : RSchema) (doc : RBuilt) : Option String → RSels → List Site
  | _, .nil => []
  | ty, .field name dirs args sub rest =>
    [.dirs dirs] ++
    (match ty with
     | some t =>
       (match s.field t name with
        | some fd =>
          [.args fd.args args] ++
            (if sub.isNil && isCompositeType s fd.ty.innerNamedType then [] else localSites s doc (some fd.ty.innerNamedType) sub)
        | none => [])
     | none => localSites s doc none sub) ++ localSites s doc ty rest
  | ty, .spread f dirs rest =>
    [.dirs dirs] ++
    (match doc.findFrag f with
     | some d => (match ty with | some t => [.spread t d.tc] | none => [])
     | none => []) ++ localSites s doc ty rest
  | ty, .inline tc dirs sub rest =>
    [.dirs dirs] ++
    (match tc with
     | none => localSites s doc ty sub
     | some c =>
       if !isCompositeType s c then []
       else (match ty with | some t => [.spread t c] | none => []) ++ localSites s doc (some c) sub) ++ localSites s doc ty rest

/-- the fragment spreads the walk of a selection set meets -/
def localSpreads (s : RSchema) : Option String → RSels → List String
  | _, .nil => []
  | ty, .field name _ _ sub rest =>
    (match ty with
     | some t =>
       (match s.field t name with
        | some fd => if sub.isNil && isCompositeType s fd.ty.innerNamedType then [] else localSpreads s (some fd.ty.innerNamedType) sub
        | none => [])
     | none => localSpreads s none sub) ++ localSpreads s ty rest
  | ty, .spread f _ rest => [f] ++ localSpreads s ty rest
  | ty, .inline tc _ sub rest =>
    (match tc with
     | none => localSpreads s ty sub
     | some c => if !isCompositeType s c then [] else localSpreads s (some c) sub) ++ localSpreads s ty rest

/-- where a diagnostic of the walk of one selection set comes from: one of its own sites, or the handler of a
    fragment it spreads -/
def Origin (s : RSchema) (doc : RBuilt) (vars : List RVarDef) (e : RFrag → List String → List TDiag × List String)
    (ty : Option String) (t : RSels) (d : TDiag) : Prop :=
  (∃ site ∈ localSites s doc ty t, d ∈ site.diags s vars) ∨
    (∃ f ∈ localSpreads s ty t, ∃ fr W, doc.findFrag f = some fr ∧ d ∈ (e fr W).1)


/-! ### every diagnostic has an origin -/

theorem walk_diag_origin (s : RSchema) (doc : RBuilt) (vars : List RVarDef) (e : RFrag → List String → List TDiag × List String) :
    ∀ (t : RSels) (ty : Option String) (V : List String) (d : TDiag),
      d ∈ (walkSels s doc vars e ty t V).1 → Origin s doc vars e ty t d := by
  intro t
  induction t with
  | nil => intro ty V d h; simp [walkSels] at h
  | field name dirs args sub rest ihs ihr =>
    intro ty V d h
    simp only [walkSels, List.mem_append] at h
    rcases h with (h | h) | h
    · exact .inl ⟨.dirs dirs, by simp [localSites], h⟩
    · cases ty with
      | none =>
        simp only at h
        rcases ihs none V d h with ⟨site, hs, hd⟩ | ⟨f, hf, fr, W, hfr, hd⟩
        · exact .inl ⟨site, by simp [localSites, hs], hd⟩
        · exact .inr ⟨f, by simp [localSpreads, hf], fr, W, hfr, hd⟩
      | some t =>
        simp only at h
        cases hfd : s.field t name with
        | none => simp [hfd] at h
        | some fd =>
          simp only [hfd] at h
          by_cases hc : (sub.isNil && isCompositeType s fd.ty.innerNamedType) = true
          · simp only [hc, if_true] at h
            exact .inl ⟨.args fd.args args, by simp [localSites, hfd], h⟩
          · simp only [hc, Bool.false_eq_true, if_false, List.mem_append] at h
            rcases h with h | h
            · exact .inl ⟨.args fd.args args, by simp [localSites, hfd], h⟩
            · rcases ihs _ V d h with ⟨site, hs, hd⟩ | ⟨f, hf, fr, W, hfr, hd⟩
              · exact .inl ⟨site, by simp [localSites, hfd, hc, hs], hd⟩
              · exact .inr ⟨f, by simp [localSpreads, hfd, hc, hf], fr, W, hfr, hd⟩
    · rcases ihr ty _ d h with ⟨site, hs, hd⟩ | ⟨f, hf, fr, W, hfr, hd⟩
      · exact .inl ⟨site, by simp [localSites, hs], hd⟩
      · exact .inr ⟨f, by simp [localSpreads, hf], fr, W, hfr, hd⟩
  | spread f dirs rest ihr =>
    intro ty V d h
    simp only [walkSels, List.mem_append] at h
    rcases h with (h | h) | h
    · exact .inl ⟨.dirs dirs, by simp [localSites], h⟩
    · cases hfr : doc.findFrag f with
      | none => simp [hfr] at h
      | some fr =>
        simp only [hfr] at h
        have hsp : ∀ x, x ∈ (match ty with | some t => spreadDiags s t fr.tc | none => []) → Origin s doc vars e ty (.spread f dirs rest) x := by
          intro x hx
          cases ty with
          | none => simp at hx
          | some t => exact .inl ⟨.spread t fr.tc, by simp [localSites, hfr], hx⟩
        by_cases hv : V.contains f = true
        · simp only [hv, if_true] at h
          exact hsp d h
        · simp only [hv, Bool.false_eq_true, if_false, List.mem_append] at h
          rcases h with h | h
          · exact hsp d h
          · exact .inr ⟨f, by simp [localSpreads], fr, f :: V, hfr, h⟩
    · rcases ihr ty _ d h with ⟨site, hs, hd⟩ | ⟨g, hg, fr, W, hfr, hd⟩
      · exact .inl ⟨site, by simp [localSites, hs], hd⟩
      · exact .inr ⟨g, by simp [localSpreads, hg], fr, W, hfr, hd⟩
  | inline tc dirs sub rest ihs ihr =>
    intro ty V d h
    simp only [walkSels, List.mem_append] at h
    rcases h with (h | h) | h
    · exact .inl ⟨.dirs dirs, by simp [localSites], h⟩
    · cases tc with
      | none =>
        simp only at h
        rcases ihs ty V d h with ⟨site, hs, hd⟩ | ⟨f, hf, fr, W, hfr, hd⟩
        · exact .inl ⟨site, by simp [localSites, hs], hd⟩
        · exact .inr ⟨f, by simp [localSpreads, hf], fr, W, hfr, hd⟩
      | some c =>
        simp only at h
        by_cases hc : isCompositeType s c = true
        · simp only [hc, Bool.not_true, Bool.false_eq_true, if_false, List.mem_append] at h
          rcases h with h | h
          · cases ty with
            | none => simp at h
            | some t => exact .inl ⟨.spread t c, by simp [localSites, hc], h⟩
          · rcases ihs _ V d h with ⟨site, hs, hd⟩ | ⟨f, hf, fr, W, hfr, hd⟩
            · exact .inl ⟨site, by simp [localSites, hc, hs], hd⟩
            · exact .inr ⟨f, by simp [localSpreads, hc, hf], fr, W, hfr, hd⟩
        · simp [hc] at h
    · rcases ihr ty _ d h with ⟨site, hs, hd⟩ | ⟨g, hg, fr, W, hfr, hd⟩
      · exact .inl ⟨site, by simp [localSites, hs], hd⟩
      · exact .inr ⟨g, by simp [localSpreads, hg], fr, W, hfr, hd⟩


/-! ### the sites an operation reaches -/

/-- the sites reachable from a selection set of type `ty`: its own, and — through every spread the walk meets — the
    directives of the fragment definition and, when its type condition is composite and it is not on a spread cycle,
    the sites reachable from its selection set under its type condition -/
inductive Reaches (s : RSchema) (doc : RBuilt) : Option String → RSels → Site → Prop
  | here {ty t site} : site ∈ localSites s doc ty t → Reaches s doc ty t site
  | fragDirs {ty t f fr} : f ∈ localSpreads s ty t → doc.findFrag f = some fr → Reaches s doc ty t (.dirs fr.dirs)
  | frag {ty t f fr site} : f ∈ localSpreads s ty t → doc.findFrag f = some fr → isCompositeType s fr.tc = true →
      (reach doc fr.sels).contains fr.name = false → Reaches s doc (some fr.tc) fr.sels site → Reaches s doc ty t site

theorem enterFrag_diag_origin (s : RSchema) (doc : RBuilt) (vars : List RVarDef) :
    ∀ (n : Nat) (fr : RFrag) (W : List String) (d : TDiag), d ∈ (enterFrag s doc vars n fr W).1 →
      d ∈ dirsDiags s vars fr.dirs ∨
        (isCompositeType s fr.tc = true ∧ (reach doc fr.sels).contains fr.name = false ∧
          ∃ site, Reaches s doc (some fr.tc) fr.sels site ∧ d ∈ site.diags s vars) := by
  intro n
  induction n with
  | zero => intro fr W d h; simp [enterFrag] at h
  | succ n ih =>
    intro fr W d h
    simp only [enterFrag] at h
    by_cases hc : (!isCompositeType s fr.tc || (reach doc fr.sels).contains fr.name) = true
    · simp only [hc, if_true] at h
      exact .inl h
    · simp only [hc, Bool.false_eq_true, if_false, List.mem_append] at h
      have hc' : isCompositeType s fr.tc = true ∧ (reach doc fr.sels).contains fr.name = false := by
        simpa using hc
      rcases h with h | h
      · exact .inl h
      · refine .inr ⟨hc'.1, hc'.2, ?_⟩
        rcases walk_diag_origin s doc vars _ fr.sels (some fr.tc) W d h with ⟨site, hs, hd⟩ | ⟨f, hf, fr', W', hfr, hd⟩
        · exact ⟨site, .here hs, hd⟩
        · rcases ih fr' W' d hd with h1 | ⟨h1, h2, site, hr, hd'⟩
          · exact ⟨.dirs fr'.dirs, .fragDirs hf hfr, h1⟩
          · exact ⟨site, .frag hf hfr h1 h2 hr, hd'⟩

/-- SOUNDNESS of the walk, whatever the fuel and the marked set: every diagnostic is one of a reachable site -/
theorem walk_diag_reaches (s : RSchema) (doc : RBuilt) (vars : List RVarDef) (n : Nat) (ty : Option String) (t : RSels)
    (V : List String) (d : TDiag) (h : d ∈ (walkSels s doc vars (enterFrag s doc vars n) ty t V).1) :
    ∃ site, Reaches s doc ty t site ∧ d ∈ site.diags s vars := by
  rcases walk_diag_origin s doc vars _ t ty V d h with ⟨site, hs, hd⟩ | ⟨f, hf, fr', W', hfr, hd⟩
  · exact ⟨site, .here hs, hd⟩
  · rcases enterFrag_diag_origin s doc vars n fr' W' d hd with h1 | ⟨h1, h2, site, hr, hd'⟩
    · exact ⟨.dirs fr'.dirs, .fragDirs hf hfr, h1⟩
    · exact ⟨site, .frag hf hfr h1 h2 hr, hd'⟩

end Apollo.ExecRules
