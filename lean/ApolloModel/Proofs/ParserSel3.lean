import ApolloModel.Proofs.ParserSel2
/-
C07 / C05 growth (selection sets), part 3: alias, fragment name, type condition, fragment spread.
-/
set_option linter.unusedSimpArgs false
namespace Apollo.Parse
open Apollo.Rowan hiding Str
open Apollo.Lex hiding Str

def sOnP : Str := "on".toList

/-- `Name :` — the alias of a field, entered when `peek_n(2)` is a colon -/
theorem alias_sound (s s' : PState) (t : Tok) (rest : List Tok) (w : TW s) (he : EofEnd s)
    (ht : Toks s = t :: rest) (hk : t.kind = .name) (hcol : ((sig rest).head?).map (·.kind) = some Kind.colon)
    (h : alias.run s = .ok () s') : Cons s s' (fun x => x = [.name t.data, .p .colon]) := by
  unfold alias at h
  obtain ⟨s1, s2, e1, h1, o2⟩ := withNode_peeked "ALIAS" _ s s' () t rest w ht (by rw [hk]; rfl) h
  have ht1 : Toks s1 = t :: rest := by have := e1.toks; rw [ht] at this; simpa using this.symm
  obtain ⟨_, s3, h3, h4⟩ := bind_dec name _ s1 s2 () h1
  obtain ⟨ign, e3, hall, hset⟩ := name_settled s1 s3 t rest e1.w ht1 hk h3
  have hrest : rest = ign ++ Toks s3 := by
    have := e3.toks; rw [ht1] at this; simpa using this
  have hhead : ((Toks s3).head?).map (·.kind) = some Kind.colon := by
    rw [← settled_sig_head s3 hset]
    rw [hrest, sig_append, sig_ignored ign hall] at hcol
    simpa using hcol
  obtain ⟨c, hc3, hkc⟩ : ∃ c, Toks s3 = c :: (Toks s3).tail ∧ c.kind = .colon := by
    cases hq : Toks s3 with
    | nil => rw [hq] at hhead; simp at hhead
    | cons c tl => rw [hq] at hhead; exact ⟨c, rfl, by simpa using hhead⟩
  obtain ⟨ign2, e4, hall2, _⟩ := bump_spec "COLON" s3 s2 e3.w c _ hc3 h4
  have etot : Eat s s' ((t :: ign) ++ (c :: ign2)) := by
    have := (((e1.trans e3).trans e4).trans (Eat.ofObsEq o2 e4.w))
    simpa using this
  refine ⟨_, _, etot.toks, noEof_append (noEof_cons (by rw [hk]; decide) hall) (noEof_cons (by rw [hkc]; decide) hall2),
    eofEnd_eat he etot (noEof_append (noEof_cons (by rw [hk]; decide) hall) (noEof_cons (by rw [hkc]; decide) hall2)), ?_, rfl⟩
  rw [sig_append]
  exact (tokIs_name t ign hk hall).append (tokIs_punct c ign2 .colon (by rw [hkc]; rfl) (by simp [astOfV, hkc]) hall2)

/-- `fragment_name` behind a `peek == Name` check: a name other than `on` -/
theorem fragmentName_sound (s s' : PState) (t : Tok) (rest : List Tok) (w : TW s) (he : EofEnd s)
    (ht : Toks s = t :: rest) (hk : t.kind = .name) (h : fragmentName.run s = .ok () s') (hnd : ¬ Doomed s') :
    Cons s s' (IsNameTok t) ∧ t.data ≠ sOnP := by
  unfold fragmentName at h
  obtain ⟨s1, s2, e1, h1, o2⟩ := withNode_peeked "FRAGMENT_NAME" _ s s' () t rest w ht (by rw [hk]; rfl) h
  have ht1 : Toks s1 = t :: rest := by have := e1.toks; rw [ht] at this; simpa using this.symm
  have hnd2 : ¬ Doomed s2 := fun d => hnd (o2.doomed.mpr d)
  obtain ⟨o, s3, h3, h4⟩ := bind_dec peekToken _ s1 s2 () h1
  have p := peekToken_obs s1 s3 o e1.w h3
  have ho : o = some t := by rw [p.head, ht1]; rfl
  subst ho
  have ht3 : Toks s3 = t :: rest := by rw [p.toks]; exact ht1
  simp only [] at h4
  by_cases hon : (t.kind == .name && kw "on" t.data) = true
  · exfalso
    simp only [hon, if_true] at h4
    exact hnd2 ((err_adv s3 s2 p.w h4).2 (by rw [ht3]; simp))
  · have hkw : kw "on" t.data = false := by
      cases hq : kw "on" t.data with
      | false => rfl
      | true => simp [hk, hq] at hon
    simp only [hk, hkw, beq_self_eq_true, Bool.and_false, Bool.false_eq_true, if_false, if_true] at h4
    obtain ⟨ign, e4, hall, _⟩ := name_settled s3 s2 t rest p.w ht3 hk h4
    have etot : Eat s s' (t :: ign) := by simpa using (((e1.trans p.eat).trans e4).trans (Eat.ofObsEq o2 e4.w))
    refine ⟨cons_of_name etot he hk hall, ?_⟩
    intro hd
    simp [kw, hd, sOnP] at hkw

/-- `on NamedType` behind a `peek == Name` check -/
theorem typeCondition_sound (s s' : PState) (t : Tok) (rest : List Tok) (w : TW s) (he : EofEnd s)
    (ht : Toks s = t :: rest) (hk : t.kind = .name) (h : typeCondition.run s = .ok () s') (hnd : ¬ Doomed s') :
    Cons s s' (fun x => ∃ ty : Str, x = [.name sOnP, .name ty]) := by
  unfold typeCondition at h
  obtain ⟨s1, s2, e1, h1, o2⟩ := withNode_peeked "TYPE_CONDITION" _ s s' () t rest w ht (by rw [hk]; rfl) h
  have ht1 : Toks s1 = t :: rest := by have := e1.toks; rw [ht] at this; simpa using this.symm
  have hnd2 : ¬ Doomed s2 := fun d => hnd (o2.doomed.mpr d)
  have he1 : EofEnd s1 := eofEnd_eat he e1 (by intro x hx; cases hx)
  obtain ⟨o, s3, h3, h4⟩ := bind_dec peekToken _ s1 s2 () h1
  have p := peekToken_obs s1 s3 o e1.w h3
  have ho : o = some t := by rw [p.head, ht1]; rfl
  subst ho
  have ht3 : Toks s3 = t :: rest := by rw [p.toks]; exact ht1
  have he3 : EofEnd s3 := eofEnd_eat he1 p.eat (by intro x hx; cases hx)
  simp only [] at h4
  have gtail : Good (peek >>= fun k => if k == some Kind.name then namedType else err) :=
    good_bind _ _ good_peek (fun k => good_ite _ _ _ good_namedType good_err)
  by_cases hon : (t.kind == .name && kw "on" t.data) = true
  · simp only [hon, if_true] at h4
    obtain ⟨_, s4, h5, h6⟩ := bind_dec (bump "on_KW") _ s3 s2 () h4
    obtain ⟨ign, e5, hall, _⟩ := bump_spec "on_KW" s3 s4 p.w t rest ht3 h5
    have hno5 : NoEof (t :: ign) := noEof_cons (by rw [hk]; decide) hall
    have he4 : EofEnd s4 := eofEnd_eat he3 e5 hno5
    have hd : t.data = sOnP := by
      have : kw "on" t.data = true := by simp only [Bool.and_eq_true] at hon; exact hon.2
      exact kw_eq this
    have c1 : Cons s3 s4 (fun x => x = [.name sOnP]) := by
      have := Cons.ofEat e5 he3 hno5 (tokIs_name t ign hk hall)
      rw [hd] at this; exact this
    obtain ⟨sP, o2', p2, hor⟩ := ifPeek_dec .name _ _ s4 s2 () e5.w h6
    have heP := p2.eofEnd he4
    rcases hor with ⟨hkn, h7⟩ | ⟨_, h7⟩
    · obtain ⟨t2, rfl, hk2⟩ : ∃ t2, o2' = some t2 ∧ t2.kind = .name := by
        cases o2' with
        | none => simp at hkn
        | some t2 => exact ⟨t2, rfl, by simpa using hkn⟩
      have c2 := namedType_sound sP s2 t2 _ p2.w heP p2.head_cons hk2 h7
      have c2' : Cons s4 s2 (IsNameTok t2) := c2.transport p2.toks.symm rfl c2.eofEnd
      have h0 : Toks s = Toks s3 := by rw [p.toks]; simpa using e1.toks
      have c := (c1.seq c2').transport h0 o2.toks (eofEnd_same _ _ c2.eofEnd o2.current o2.lx o2.errors)
      exact c.weaken (by rintro z ⟨x, y, rfl, rfl, rfl⟩; exact ⟨t2.data, rfl⟩)
    · exfalso
      exact hnd2 ((err_adv sP s2 p2.w h7).2 (eofEnd_nonempty sP heP (fun d => hnd2 ((good_err sP () s2 p2.w h7).doom d))))
  · exfalso
    simp only [hon, Bool.false_eq_true, if_false] at h4
    obtain ⟨_, s4, h5, h6⟩ := bind_dec err _ s3 s2 () h4
    obtain ⟨a5, d5⟩ := err_adv s3 s4 p.w h5
    exact hnd2 ((gtail s4 () s2 a5.w h6).doom (d5 (by rw [ht3]; simp)))

end Apollo.Parse

namespace Apollo.Parse
open Apollo.Rowan hiding Str
open Apollo.Lex hiding Str

/-- `if p.peek() == Some(T![@]) { directives }` -/
theorem optDirectives_sound (n : Nat) (s s' : PState) (w : TW s) (he : EofEnd s)
    (h : (peek >>= fun k => if k == some Kind.at then directives n false else pure ()).run s = .ok () s') (hnd : ¬ Doomed s') :
    Cons s s' (fun x => ∃ ds, x = Ast.tDirectives ds) := by
  obtain ⟨sP, o, p, hor⟩ := ifPeek_dec .at _ _ s s' () w h
  have heP := p.eofEnd he
  rcases hor with ⟨_, h2⟩ | ⟨_, h2⟩
  · obtain ⟨cs, ds, a, b, c, d, _⟩ := directives_sound n false sP s' p.w heP h2 hnd
    exact ⟨cs, _, by rw [← p.toks]; exact a, b, c, d, ds, rfl⟩
  · rw [run_pure] at h2
    injection h2 with _ h2
    subst h2
    exact (Cons.nil p.toks heP).weaken (by rintro x rfl; exact ⟨[], rfl⟩)

/-- `if p.peek() == Some(T!['(']) { arguments }` -/
theorem optArguments_sound (n : Nat) (s s' : PState) (w : TW s) (he : EofEnd s)
    (h : (peek >>= fun k => if k == some Kind.lParen then arguments n false else pure ()).run s = .ok () s') (hnd : ¬ Doomed s') :
    Cons s s' (fun x => ∃ args, x = Ast.tArguments args) := by
  obtain ⟨sP, o, p, hor⟩ := ifPeek_dec .lParen _ _ s s' () w h
  have heP := p.eofEnd he
  rcases hor with ⟨hk, h2⟩ | ⟨_, h2⟩
  · obtain ⟨t, rfl, hkt⟩ : ∃ t, o = some t ∧ t.kind = .lParen := by
      cases o with
      | none => simp at hk
      | some t => exact ⟨t, rfl, by simpa using hk⟩
    obtain ⟨cs, args, a, b, c, _, d, _⟩ := arguments_sound n false sP s' t _ p.w heP p.head_cons hkt h2 hnd
    exact ⟨cs, _, by rw [← p.toks]; exact a, b, c, d, args, rfl⟩
  · rw [run_pure] at h2
    injection h2 with _ h2
    subst h2
    exact (Cons.nil p.toks heP).weaken (by rintro x rfl; exact ⟨[], rfl⟩)

/-- `... FragmentName Directives?` -/
theorem fragmentSpread_sound (n : Nat) (s s' : PState) (t : Tok) (rest : List Tok) (w : TW s) (he : EofEnd s)
    (ht : Toks s = t :: rest) (hk : t.kind = .spread) (h : (fragmentSpread n).run s = .ok () s') (hnd : ¬ Doomed s') :
    Cons s s' (fun x => ∃ nm ds, x = Ast.tSel (.spread nm ds) ∧ nm ≠ sOnP) := by
  have hni : isIgnoredKind t.kind = false := by rw [hk]; rfl
  unfold fragmentSpread at h
  obtain ⟨s1, s2, e1, h1, o2⟩ := withNode_peeked "FRAGMENT_SPREAD" _ s s' () t rest w ht hni h
  have ht1 : Toks s1 = t :: rest := by have := e1.toks; rw [ht] at this; simpa using this.symm
  have hnd2 : ¬ Doomed s2 := fun d => hnd (o2.doomed.mpr d)
  have he1 : EofEnd s1 := eofEnd_eat he e1 (by intro x hx; cases hx)
  obtain ⟨_, s3, h3, h4⟩ := bind_dec (bump "SPREAD") _ s1 s2 () h1
  obtain ⟨ign, e3, hall, _⟩ := bump_spec "SPREAD" s1 s3 e1.w t rest ht1 h3
  have hno3 : NoEof (t :: ign) := noEof_cons (by rw [hk]; decide) hall
  have c0 : Cons s1 s3 (fun x => x = [.p .spread]) :=
    Cons.ofEat e3 he1 hno3 (tokIs_punct t ign .spread hni (by simp [astOfV, hk]) hall)
  have he3 := c0.eofEnd
  have gjp : Good (peek >>= fun k => if k == some Kind.at then directives n false else pure ()) :=
    good_bind _ _ good_peek (fun k => good_ite _ _ _ (good_directives n false) (good_pure _))
  obtain ⟨sP, o, p, hor⟩ := ifPeek_dec .name (fragmentName >>= fun _ => (peek >>= fun k => if k == some Kind.at then directives n false else pure ()))
    (err >>= fun _ => (peek >>= fun k => if k == some Kind.at then directives n false else pure ())) s3 s2 () e3.w h4
  have heP := p.eofEnd he3
  rcases hor with ⟨hkn, h5⟩ | ⟨_, h5⟩
  · obtain ⟨t2, rfl, hk2⟩ : ∃ t2, o = some t2 ∧ t2.kind = .name := by
      cases o with
      | none => simp at hkn
      | some t2 => exact ⟨t2, rfl, by simpa using hkn⟩
    obtain ⟨_, s4, h6, h7⟩ := bind_dec fragmentName _ sP s2 () h5
    have a6 := good_fragmentName sP () s4 p.w h6
    have hnd4 : ¬ Doomed s4 := fun d => hnd2 ((gjp s4 () s2 a6.w h7).doom d)
    obtain ⟨c1, hne⟩ := fragmentName_sound sP s4 t2 _ p.w heP p.head_cons hk2 h6 hnd4
    have c1' : Cons s3 s4 (IsNameTok t2) := c1.transport p.toks.symm rfl c1.eofEnd
    have c2 := optDirectives_sound n s4 s2 a6.w c1.eofEnd h7 hnd2
    have h0 : Toks s = Toks s1 := by simpa using e1.toks
    have c := ((c0.seq c1').seq c2).transport h0 o2.toks (eofEnd_same _ _ c2.eofEnd o2.current o2.lx o2.errors)
    exact c.weaken (by
      rintro z ⟨xy, y, rfl, ⟨x1, x2, rfl, rfl, rfl⟩, ds, rfl⟩
      exact ⟨t2.data, ds, by simp [Ast.tSel], hne⟩)
  · exfalso
    obtain ⟨_, s4, h6, h7⟩ := bind_dec err _ sP s2 () h5
    obtain ⟨a6, d6⟩ := err_adv sP s4 p.w h6
    have hndP : ¬ Doomed sP := fun d => hnd2 ((gjp s4 () s2 a6.w h7).doom (a6.doom d))
    exact hnd2 ((gjp s4 () s2 a6.w h7).doom (d6 (eofEnd_nonempty sP heP hndP)))

end Apollo.Parse
