import ApolloModel.Proofs.ExecValuesBridge
import ApolloModel.Proofs.ExecWalk3
/-
C17, document level, §5.6 / §5.8.3 / §5.8.5 for the variable-related value diagnostics: the walk theorems
(`Proofs/ExecWalk*.lean`, on the abstract per-argument check `argDiags`) composed with the bridge to the full
per-argument check `argValueDiags` (`Proofs/ExecValuesBridge.lean`) and with `argument_value_iff_spec`.
-/
set_option linter.unusedSimpArgs false
set_option linter.unusedVariables false
namespace Apollo.ExecValues
open Apollo Apollo.ExecRules Apollo.ExecRules.Mem

/-- `(xvars, ty, hd, v)` is a full-value presentation of the argument `a` checked against `df` with `vars`:
    the same variable definitions, the same argument definition, and `a`'s value is `v` with the scalar literals
    forgotten -/
structure Presents (vars : List RVarDef) (df : InDef) (a : RArg) (xvars : List XVarDef) (ty : ValueCheck.Ty) (hd : Bool)
    (v : ValueCheck.Value) : Prop where
  vars : vars = xvars.map rvarOf
  df : df = inDefOf a.name ty hd
  value : a.value = rvalOf v

theorem presents_arg {vars : List RVarDef} {df : InDef} {a : RArg} {xvars : List XVarDef} {ty : ValueCheck.Ty} {hd : Bool}
    {v : ValueCheck.Value} (h : Presents vars df a xvars ty hd v) (s : RSchema) :
    argDiags s vars df a = argDiags s (xvars.map rvarOf) (inDefOf a.name ty hd) { name := a.name, value := rvalOf v } := by
  obtain ⟨h1, h2, h3⟩ := h
  subst h1; subst h2
  cases a with
  | mk n val => simp only at h3; subst h3; rfl

theorem uv_not_spread (s : RSchema) (t c n : String) : TDiag.undefinedVariable n ∉ spreadDiags s t c := by
  unfold spreadDiags; repeat' split
  all_goals simp

/-- §5.8.3 at document level, on the walk's own per-argument check: `UndefinedVariable` is reported iff the
    per-argument check reports it for an argument some operation checks -/
theorem undefinedVariable_iff_doc (s : RSchema) (ast : RAst) :
    (∃ n, TDiag.undefinedVariable n ∈ typedDiags s ast) ↔
      ∃ o ∈ (build s ast).ops, ∃ vars df a, OpArg s (build s ast) o vars df a ∧ HasUV (argDiags s vars df a) := by
  constructor
  · rintro ⟨n, h⟩
    obtain ⟨o, ho, h⟩ := (typedDiags_mem_iff s ast _).mp h
    rcases h with ⟨vars, df, a, h1, h2⟩ | ⟨t, c, _, h2⟩
    · exact ⟨o, ho, vars, df, a, h1, n, h2⟩
    · exact absurd h2 (uv_not_spread s t c n)
  · rintro ⟨o, ho, vars, df, a, h1, n, h2⟩
    exact ⟨n, (typedDiags_mem_iff s ast _).mpr ⟨o, ho, .inl ⟨vars, df, a, h1, h2⟩⟩⟩

/-- … and in terms of the FULL per-argument check (`argValueDiags`, the model of §5.6.1–4 with variables): whenever
    every argument the walk checks has a full-value presentation, the document reports `UndefinedVariable` iff
    `value_of_correct_type`, run on the full value of some argument an operation reaches — with the argument's own
    definition and that operation's variable definitions — reports it.  (← needs no presentation hypothesis.) -/
theorem values_undefinedVariable_iff_doc (s : RSchema) (S : ValueCheck.Schema) (hrel : SchemaRel s S) (ast : RAst)
    (hp : ∀ o ∈ (build s ast).ops, ∀ vars df a, OpArg s (build s ast) o vars df a →
      ∃ xvars ty hd v, Presents vars df a xvars ty hd v) :
    (∃ n, TDiag.undefinedVariable n ∈ typedDiags s ast) ↔
      ∃ o ∈ (build s ast).ops, ∃ vars df a xvars ty hd v, OpArg s (build s ast) o vars df a ∧
        Presents vars df a xvars ty hd v ∧ XDiag.value .undefinedVariable ∈ argValueDiags S xvars ty hd v := by
  rw [undefinedVariable_iff_doc]
  constructor
  · rintro ⟨o, ho, vars, df, a, h1, h2⟩
    obtain ⟨xvars, ty, hd, v, hpr⟩ := hp o ho vars df a h1
    rw [presents_arg hpr s] at h2
    exact ⟨o, ho, vars, df, a, xvars, ty, hd, v, h1, hpr, (arg_undefinedVariable_agrees s S hrel xvars a.name ty hd v).mp h2⟩
  · rintro ⟨o, ho, vars, df, a, xvars, ty, hd, v, h1, hpr, h2⟩
    refine ⟨o, ho, vars, df, a, h1, ?_⟩
    rw [presents_arg hpr s]
    exact (arg_undefinedVariable_agrees s S hrel xvars a.name ty hd v).mpr h2

/-- §5.8.5 at document level, completeness: a `DisallowedVariableUsage` of the full per-argument check at an argument
    some operation reaches is reported for the document -/
theorem values_disallowed_doc (s : RSchema) (S : ValueCheck.Schema) (ast : RAst)
    (o : ROp) (ho : o ∈ (build s ast).ops) (vars : List RVarDef) (df : InDef) (a : RArg)
    (xvars : List XVarDef) (ty : ValueCheck.Ty) (hd : Bool) (v : ValueCheck.Value)
    (h1 : OpArg s (build s ast) o vars df a) (hpr : Presents vars df a xvars ty hd v)
    (h2 : XDiag.disallowedVariableUsage ∈ argValueDiags S xvars ty hd v) :
    ∃ n, TDiag.disallowedVariableUsage n ∈ typedDiags s ast := by
  obtain ⟨n, _, he⟩ := (arg_disallowed_agrees s S xvars a.name ty hd v).mp h2
  refine ⟨n, (typedDiags_mem_iff s ast _).mpr ⟨o, ho, .inl ⟨vars, df, a, h1, ?_⟩⟩⟩
  rw [presents_arg hpr s, he]
  exact List.mem_singleton.mpr rfl

/-- **`values_rule_iff_spec`, the variable-related part, document level**: when the typed rules report nothing for the
    document, every argument any operation reaches — under every full-value presentation — gets neither
    `DisallowedVariableUsage` nor `UndefinedVariable` from the full check; and (with `argument_value_iff_spec`)
    conversely, if every presented reachable argument satisfies the specification's `ExecArgOK`, the document
    reports no `UndefinedVariable` -/
theorem values_rule_variables_doc (s : RSchema) (S : ValueCheck.Schema) (hrel : SchemaRel s S) (ast : RAst) :
    (typedDiags s ast = [] →
      ∀ o ∈ (build s ast).ops, ∀ vars df a xvars ty hd v, OpArg s (build s ast) o vars df a →
        Presents vars df a xvars ty hd v →
          XDiag.disallowedVariableUsage ∉ argValueDiags S xvars ty hd v ∧
            XDiag.value .undefinedVariable ∉ argValueDiags S xvars ty hd v) ∧
    ((∀ o ∈ (build s ast).ops, ∀ vars df a, OpArg s (build s ast) o vars df a →
        ∃ xvars ty hd v, Presents vars df a xvars ty hd v ∧ argValueDiags S xvars ty hd v = []) →
      ∀ n, TDiag.undefinedVariable n ∉ typedDiags s ast) := by
  constructor
  · intro hq o ho vars df a xvars ty hd v h1 hpr
    have hquiet : argDiags s vars df a = [] := by
      apply List.eq_nil_iff_forall_not_mem.mpr
      intro d hd'
      have := (typedDiags_mem_iff s ast d).mpr ⟨o, ho, .inl ⟨vars, df, a, h1, hd'⟩⟩
      rw [hq] at this; cases this
    rw [presents_arg hpr s] at hquiet
    exact arg_quiet_variables s S hrel xvars a.name ty hd v hquiet
  · intro hall n hm
    obtain ⟨o, ho, vars, df, a, h1, h2⟩ := (undefinedVariable_iff_doc s ast).mp ⟨n, hm⟩
    obtain ⟨xvars, ty, hd, v, hpr, hq⟩ := hall o ho vars df a h1
    rw [presents_arg hpr s] at h2
    have := (arg_undefinedVariable_agrees s S hrel xvars a.name ty hd v).mp h2
    rw [hq] at this; cases this


theorem dis_not_spread (s : RSchema) (t c n : String) : TDiag.disallowedVariableUsage n ∉ spreadDiags s t c := by
  unfold spreadDiags; repeat' split
  all_goals simp

theorem rvalOf_var {v : ValueCheck.Value} {n : String} (h : rvalOf v = .var n) : v = .variable n := by
  cases v <;> simp [rvalOf] at h
  subst h; rfl

/-- §5.8.5 at document level, in terms of the full per-argument check: whenever every argument the walk checks has a
    full-value presentation, the document reports `DisallowedVariableUsage` iff `validate_variable_usage` fails at
    some argument an operation reaches — with the argument's own definition (incl. its default) and that operation's
    variable definitions -/
theorem values_disallowed_iff_doc (s : RSchema) (S : ValueCheck.Schema) (ast : RAst)
    (hp : ∀ o ∈ (build s ast).ops, ∀ vars df a, OpArg s (build s ast) o vars df a →
      ∃ xvars ty hd v, Presents vars df a xvars ty hd v) :
    (∃ n, TDiag.disallowedVariableUsage n ∈ typedDiags s ast) ↔
      ∃ o ∈ (build s ast).ops, ∃ vars df a xvars ty hd v, OpArg s (build s ast) o vars df a ∧
        Presents vars df a xvars ty hd v ∧ XDiag.disallowedVariableUsage ∈ argValueDiags S xvars ty hd v := by
  constructor
  · rintro ⟨n, h⟩
    obtain ⟨o, ho, h⟩ := (typedDiags_mem_iff s ast _).mp h
    rcases h with ⟨vars, df, a, h1, h2⟩ | ⟨t, c, _, h2⟩
    · obtain ⟨xvars, ty, hd, v, hpr⟩ := hp o ho vars df a h1
      obtain ⟨hv, he⟩ := argDiags_disallowed s vars df a n h2
      have hvv : v = .variable n := rvalOf_var (hpr.value ▸ hv)
      rw [presents_arg hpr s] at he
      exact ⟨o, ho, vars, df, a, xvars, ty, hd, v, h1, hpr,
        (arg_disallowed_agrees s S xvars a.name ty hd v).mpr ⟨n, hvv, he⟩⟩
    · exact absurd h2 (dis_not_spread s t c n)
  · rintro ⟨o, ho, vars, df, a, xvars, ty, hd, v, h1, hpr, h2⟩
    exact values_disallowed_doc s S ast o ho vars df a xvars ty hd v h1 hpr h2

/-- the specification side: if every argument any operation reaches has a full-value presentation that satisfies
    `ExecArgOK` (§5.6.1–4 with the variable rule of the code inside literals and §5.8.5 IsVariableUsageAllowed at the
    top) on a closed schema at a defined input type, the document reports neither `UndefinedVariable` nor
    `DisallowedVariableUsage` -/
theorem values_rule_spec_doc (s : RSchema) (S : ValueCheck.Schema) (hrel : SchemaRel s S) (hS : ValueCheck.Spec.Closed S) (ast : RAst)
    (hall : ∀ o ∈ (build s ast).ops, ∀ vars df a, OpArg s (build s ast) o vars df a →
      ∃ xvars ty hd v, Presents vars df a xvars ty hd v ∧ ValueCheck.Spec.Defined S ty ∧ ExecArgOK S xvars ty hd v) :
    ∀ n, TDiag.undefinedVariable n ∉ typedDiags s ast ∧ TDiag.disallowedVariableUsage n ∉ typedDiags s ast := by
  have hq : ∀ o ∈ (build s ast).ops, ∀ vars df a, OpArg s (build s ast) o vars df a →
      ∃ xvars ty hd v, Presents vars df a xvars ty hd v ∧ argValueDiags S xvars ty hd v = [] := by
    intro o ho vars df a h1
    obtain ⟨xvars, ty, hd, v, hpr, hdef, hok⟩ := hall o ho vars df a h1
    exact ⟨xvars, ty, hd, v, hpr, (arg_values_iff S hS xvars ty hd v hdef).mpr hok⟩
  intro n
  constructor
  · exact (values_rule_variables_doc s S hrel ast).2 hq n
  · intro hm
    obtain ⟨o, ho, h⟩ := (typedDiags_mem_iff s ast _).mp hm
    rcases h with ⟨vars, df, a, h1, h2⟩ | ⟨t, c, _, h2⟩
    · obtain ⟨xvars, ty, hd, v, hpr, hqq⟩ := hq o ho vars df a h1
      obtain ⟨hv, he⟩ := argDiags_disallowed s vars df a n h2
      have hvv : v = .variable n := rvalOf_var (hpr.value ▸ hv)
      rw [presents_arg hpr s] at he
      have := (arg_disallowed_agrees s S xvars a.name ty hd v).mpr ⟨n, hvv, he⟩
      rw [hqq] at this; cases this
    · exact absurd h2 (dis_not_spread s t c n)

/-- the relation is inhabited: the two views of the schema without definitions (built-in scalars only) -/
theorem schemaRel_builtins : SchemaRel ⟨[], none, none, none, []⟩ ⟨[]⟩ := by
  intro n
  have e1 : ExecRules.builtinScalarNames = ValueCheck.builtinScalarNames := rfl
  cases h : ValueCheck.builtinScalarNames.contains n with
  | true =>
    exact .inr ⟨.scalar true, .scalar true,
      by simp only [RSchema.kindForValue, RSchema.typeInfo?, List.find?_nil, e1, h, if_true],
      by simp only [ValueCheck.Schema.lookup, List.find?_nil, h, if_true], .scalar true⟩
  | false =>
    exact .inl ⟨by simp only [RSchema.kindForValue, RSchema.typeInfo?, List.find?_nil, e1, h, Bool.false_eq_true, if_false],
      by simp only [ValueCheck.Schema.lookup, List.find?_nil, h, Bool.false_eq_true, if_false]⟩

end Apollo.ExecValues
