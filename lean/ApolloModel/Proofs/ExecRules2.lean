import ApolloModel.Proofs.ExecRules
/-
C17 rule families on the structural model (Model/Standalone.lean): (c) field selections as
`document_from_ast` checks them, (e) operation name uniqueness and the lone anonymous operation
(fold invariants of `build`).
-/
set_option linter.unusedSimpArgs false
set_option linter.unusedVariables false
namespace Apollo.ExecRules
open Apollo Apollo.Spec
open Apollo.Standalone (Diag Sels)

/-! ### (c) fields — §5.3.1 Field Selections, §5.3.3 Leaf Field Selections (no sub-selection on a leaf),
and the existence of inline type conditions (§5.5.1.2), as `document_from_ast` checks them -/

/-- every field selected exists on the type it is selected on (meta-fields included: `sc.field` is
    `Schema::type_field`), a field of scalar or enum type has no sub-selection, every inline type
    condition names a defined type — through the whole selection set -/
def SelectionsWellTyped (sc : Standalone.Schema) : Nat → Sels → Prop
  | _, .nil => True
  | parent, .field name _ _ sub rest =>
    (∃ fd, sc.field parent name = some fd ∧ ¬ (sub.isNil = false ∧ sc.kind fd.ty = some .leaf) ∧ SelectionsWellTyped sc fd.ty sub) ∧
      SelectionsWellTyped sc parent rest
  | parent, .spread _ _ rest => SelectionsWellTyped sc parent rest
  | parent, .inline tc _ sub rest =>
    (match tc with
     | some t => (sc.kind t).isSome = true ∧ SelectionsWellTyped sc t sub
     | none => SelectionsWellTyped sc parent sub) ∧
      SelectionsWellTyped sc parent rest

theorem field_selections_iff (sc : Standalone.Schema) : ∀ (sels : Sels) (parent : Nat),
    (Standalone.buildSels (some sc) parent sels).2 = [] ↔ SelectionsWellTyped sc parent sels := by
  intro sels
  induction sels with
  | nil => intro parent; simp [Standalone.buildSels, SelectionsWellTyped]
  | field name dirs args sub rest ihs ihr =>
    intro parent
    simp only [Standalone.buildSels, SelectionsWellTyped]
    cases hf : sc.field parent name with
    | none => simp
    | some fd =>
      simp only [Option.some.injEq, exists_eq_left']
      by_cases hleaf : (!sub.isNil && sc.kind fd.ty == some .leaf) = true
      · simp only [hleaf, if_true]
        have : sub.isNil = false ∧ sc.kind fd.ty = some .leaf := by simpa using hleaf
        simp [this]
      · simp only [hleaf, Bool.false_eq_true, if_false, List.append_eq_nil_iff, ihs, ihr]
        have : ¬ (sub.isNil = false ∧ sc.kind fd.ty = some .leaf) := by simpa using hleaf
        simp [this]
  | spread f dirs rest ihr =>
    intro parent
    simp only [Standalone.buildSels, SelectionsWellTyped, ihr]
  | inline tc dirs sub rest ihs ihr =>
    intro parent
    simp only [Standalone.buildSels, SelectionsWellTyped]
    cases tc with
    | none => simp only [Option.getD_none, List.append_eq_nil_iff, ihs, ihr]
    | some t =>
      simp only []
      by_cases hk : (sc.kind t).isNone = true
      · simp only [hk, if_true]
        have : (sc.kind t).isSome = false := by cases h : sc.kind t <;> simp_all
        simp [this]
      · simp only [hk, Bool.false_eq_true, if_false, List.append_eq_nil_iff, ihs, ihr]
        have : (sc.kind t).isSome = true := by cases h : sc.kind t <;> simp_all
        simp [this]

end Apollo.ExecRules

namespace Apollo.Standalone.Rules
open Apollo Apollo.Standalone

/-! ### (e) operations — §5.2.1.1 Operation Name Uniqueness, §5.2.2.1 Lone Anonymous Operation -/

def opsOf (ast : Ast) : List Op := ast.filterMap fun d => match d with | .op o => some o | _ => none
def namedNames (ast : Ast) : List Nat := (opsOf ast).filterMap (·.name)
def anonCount (ast : Ast) : Nat := ((opsOf ast).filter (·.name.isNone)).length
def firstIsAnon (ast : Ast) : Bool := match opsOf ast with | o :: _ => o.name.isNone | [] => false

/-- §5.2.1.1: no two named operations have the same name -/
def OperationNamesUnique (ast : Ast) : Prop := (namedNames ast).Nodup
/-- §5.2.2.1: an anonymous operation is the only operation of the document -/
def LoneAnonymousOperation (ast : Ast) : Prop := ¬ (anonCount ast > 0 ∧ (opsOf ast).length > 1)

theorem buildSels_kinds (s : Option Schema) : ∀ (sels : Sels) (parent : Nat),
    ∀ d ∈ (buildSels s parent sels).2,
      d = .undefinedField ∨ d = .subselectionOnLeaf ∨ d = .undefinedTypeInInlineFragmentTypeCondition := by
  intro sels
  induction sels with
  | nil => intro parent d hd; simp [buildSels] at hd
  | field name dirs args sub rest ihs ihr =>
    intro parent d hd
    simp only [buildSels] at hd
    cases s with
    | none =>
      simp only [List.mem_append] at hd
      rcases hd with h | h
      · exact ihs _ d h
      · exact ihr _ d h
    | some sc =>
      simp only [] at hd
      split at hd
      · rcases List.mem_cons.mp hd with rfl | h
        · simp
        · exact ihr _ d h
      · split at hd
        · rcases List.mem_cons.mp hd with rfl | h
          · simp
          · exact ihr _ d h
        · simp only [List.mem_append] at hd
          rcases hd with h | h
          · exact ihs _ d h
          · exact ihr _ d h
  | spread f dirs rest ihr =>
    intro parent d hd
    simp only [buildSels] at hd
    exact ihr _ d hd
  | inline tc dirs sub rest ihs ihr =>
    intro parent d hd
    simp only [buildSels] at hd
    split at hd
    · split at hd
      · rcases List.mem_cons.mp hd with rfl | h
        · simp
        · exact ihr _ d h
      · simp only [List.mem_append] at hd
        rcases hd with h | h
        · exact ihs _ d h
        · exact ihr _ d h
    · simp only [List.mem_append] at hd
      rcases hd with h | h
      · exact ihs _ d h
      · exact ihr _ d h

theorem buildOp_spec (s : Option Schema) (o o' : Op) (ds : List Diag) (h : buildOp s o = some (o', ds)) :
    o'.name = o.name ∧ ∀ d ∈ ds, d ≠ .ambiguousAnonymousOperation ∧ d ≠ .operationNameCollision := by
  unfold buildOp at h
  have hk : ∀ parent, ∀ d ∈ (buildSels s parent o.sels).2, d ≠ .ambiguousAnonymousOperation ∧ d ≠ .operationNameCollision := by
    intro parent d hd
    rcases buildSels_kinds s o.sels parent d hd with rfl | rfl | rfl <;> simp
  cases s with
  | none =>
    simp only [Option.some.injEq, Prod.mk.injEq] at h
    obtain ⟨rfl, rfl⟩ := h
    exact ⟨rfl, hk 0⟩
  | some sc =>
    simp only [] at h
    split at h
    · cases h
    · simp only [Option.some.injEq, Prod.mk.injEq] at h
      obtain ⟨rfl, rfl⟩ := h
      exact ⟨rfl, hk _⟩

/-- every operation of the document has a root type in the schema (`Operation::from_ast` succeeds);
    trivially true without a schema -/
def AllOpsBuild (s : Option Schema) (ast : Ast) : Prop :=
  ∀ o ∈ opsOf ast, (buildOp s o).isSome = true

structure OpsInv (st : BuildState) (pre : Ast) : Prop where
  anon : st.doc.anon.isSome = firstIsAnon pre
  named : ∀ n, st.doc.named.any (fun p => p.name == some n) = decide (n ∈ namedNames pre)
  empty : st.doc.named.isEmpty = (namedNames pre).isEmpty
  amb : Diag.ambiguousAnonymousOperation ∈ st.diags ↔ (anonCount pre > 0 ∧ (opsOf pre).length > 1)
  col : Diag.operationNameCollision ∈ st.diags ↔ ¬ (namedNames pre).Nodup

theorem opsOf_snoc_op (pre : Ast) (o : Op) : opsOf (pre ++ [.op o]) = opsOf pre ++ [o] := by simp [opsOf]
theorem opsOf_snoc_other (pre : Ast) (d : Def) (h : ∀ o, d ≠ .op o) : opsOf (pre ++ [d]) = opsOf pre := by
  cases d with
  | op o => exact absurd rfl (h o)
  | frag f => simp [opsOf]
  | typeSystem => simp [opsOf]

theorem firstIsAnon_snoc (pre : Ast) (o : Op) :
    firstIsAnon (pre ++ [.op o]) = (if (opsOf pre).isEmpty then o.name.isNone else firstIsAnon pre) := by
  simp only [firstIsAnon, opsOf_snoc_op]
  cases opsOf pre <;> simp

theorem nodup_snoc (l : List Nat) (n : Nat) : (l ++ [n]).Nodup ↔ l.Nodup ∧ n ∉ l := by
  simp only [List.nodup_append, List.nodup_cons, List.not_mem_nil, not_false_eq_true, List.nodup_nil, and_self, true_and,
    List.mem_singleton, forall_eq]
  constructor
  · rintro ⟨h1, h2⟩; exact ⟨h1, fun hm => h2 n hm rfl⟩
  · rintro ⟨h1, h2⟩; exact ⟨h1, fun a ha hn => h2 (hn ▸ ha)⟩

theorem firstIsAnon_pos (pre : Ast) (h : firstIsAnon pre = true) : anonCount pre > 0 ∧ (opsOf pre).length > 0 := by
  unfold firstIsAnon at h
  unfold anonCount
  cases ho : opsOf pre with
  | nil => rw [ho] at h; cases h
  | cons o rest => rw [ho] at h; simp only [] at h; simp [List.filter_cons, h]

theorem ops_nil (pre : Ast) (h : opsOf pre = []) : firstIsAnon pre = false ∧ namedNames pre = [] ∧ anonCount pre = 0 := by
  simp [firstIsAnon, namedNames, anonCount, h]

theorem ops_nil_of (pre : Ast) (h1 : firstIsAnon pre = false) (h2 : (namedNames pre).isEmpty = true) : opsOf pre = [] := by
  unfold firstIsAnon at h1
  unfold namedNames at h2
  cases ho : opsOf pre with
  | nil => rfl
  | cons o rest =>
    rw [ho] at h1 h2
    simp only [] at h1
    cases hn : o.name with
    | none => simp [hn] at h1
    | some n => simp [List.filterMap_cons, hn] at h2

theorem firstIsAnon_of_single (pre : Ast) (h1 : (opsOf pre).length = 1) (h2 : anonCount pre > 0) : firstIsAnon pre = true := by
  unfold firstIsAnon
  unfold anonCount at h2
  cases ho : opsOf pre with
  | nil => rw [ho] at h1; cases h1
  | cons o rest =>
    rw [ho] at h1 h2
    have : rest = [] := by cases rest <;> simp_all
    subst this
    simp only []
    cases hn : o.name.isNone with
    | true => rfl
    | false => simp [List.filter_cons, hn] at h2

theorem ops_pos_of_named (pre : Ast) (h : (namedNames pre).isEmpty = false) : (opsOf pre).length > 0 := by
  unfold namedNames at h
  cases ho : opsOf pre with
  | nil => rw [ho] at h; simp at h
  | cons o rest => simp

theorem namedNames_snoc (pre : Ast) (o : Op) :
    namedNames (pre ++ [.op o]) = namedNames pre ++ (match o.name with | some n => [n] | none => []) := by
  simp only [namedNames, opsOf_snoc_op, List.filterMap_append]
  cases h : o.name <;> simp [List.filterMap_cons, h]

theorem anonCount_snoc (pre : Ast) (o : Op) :
    anonCount (pre ++ [.op o]) = anonCount pre + (if o.name.isNone then 1 else 0) := by
  simp only [anonCount, opsOf_snoc_op, List.filter_append, List.length_append]
  cases h : o.name.isNone <;> simp [List.filter_cons, h]

theorem ops_step (s : Option Schema) (st : BuildState) (pre : Ast) (d : Def) (inv : OpsInv st pre)
    (hb : ∀ o, d = .op o → (buildOp s o).isSome = true) : OpsInv (buildDef s st d) (pre ++ [d]) := by
  cases d with
  | typeSystem =>
    have e := opsOf_snoc_other pre .typeSystem (by intro o h; cases h)
    simp only [buildDef]
    exact ⟨by simp [firstIsAnon, e, inv.anon], by simp [namedNames, e]; simpa [namedNames] using inv.named,
      by simp [namedNames, e]; simpa [namedNames] using inv.empty,
      by simp [anonCount, e]; simpa [anonCount] using inv.amb, by simp [namedNames, e]; simpa [namedNames] using inv.col⟩
  | frag f =>
    have e := opsOf_snoc_other pre (.frag f) (by intro o h; cases h)
    have hd : ∀ x, (x = Diag.ambiguousAnonymousOperation ∨ x = .operationNameCollision) →
        (x ∈ (buildDef s st (.frag f)).diags ↔ x ∈ st.diags) := by
      intro x hx
      simp only [buildDef]
      split
      · simp; rcases hx with rfl | rfl <;> simp
      · split
        · split
          · simp; rcases hx with rfl | rfl <;> simp
          · simp only [List.mem_append]
            constructor
            · rintro (h | h)
              · exact h
              · rcases buildSels_kinds _ _ _ _ h with rfl | rfl | rfl <;> rcases hx with h | h <;> cases h
            · exact Or.inl
        · simp only [List.mem_append]
          constructor
          · rintro (h | h)
            · exact h
            · rcases buildSels_kinds _ _ _ _ h with rfl | rfl | rfl <;> rcases hx with h | h <;> cases h
          · exact Or.inl
    have hdoc : (buildDef s st (.frag f)).doc.anon = st.doc.anon ∧ (buildDef s st (.frag f)).doc.named = st.doc.named := by
      simp only [buildDef]
      split
      · exact ⟨rfl, rfl⟩
      · split
        · split <;> exact ⟨rfl, rfl⟩
        · exact ⟨rfl, rfl⟩
    refine ⟨?_, ?_, ?_, ?_, ?_⟩
    · rw [hdoc.1]; simp [firstIsAnon, e, inv.anon]
    · rw [hdoc.2]; simp only [namedNames, e]; exact inv.named
    · rw [hdoc.2]; simp only [namedNames, e]; exact inv.empty
    · rw [hd _ (Or.inl rfl)]; simp only [anonCount, e]; exact inv.amb
    · rw [hd _ (Or.inr rfl)]; simp only [namedNames, e]; exact inv.col
  | op o =>
    have hbo := hb o rfl
    obtain ⟨ob, hbo'⟩ := Option.isSome_iff_exists.mp hbo
    obtain ⟨o', ds⟩ := ob
    obtain ⟨hname, hds⟩ := buildOp_spec s o o' ds hbo'
    have hlen : (opsOf (pre ++ [.op o])).length = (opsOf pre).length + 1 := by simp [opsOf_snoc_op]
    cases hn : o.name with
    | some n =>
      have hnn : namedNames (pre ++ [.op o]) = namedNames pre ++ [n] := by rw [namedNames_snoc, hn]
      have hac : anonCount (pre ++ [.op o]) = anonCount pre := by rw [anonCount_snoc, hn]; simp
      have hfa : firstIsAnon (pre ++ [.op o]) = firstIsAnon pre := by
        rw [firstIsAnon_snoc, hn]
        cases ho : opsOf pre with
        | nil => simp [(ops_nil pre ho).1]
        | cons x xs => simp
      have hambRhs : (anonCount pre > 0 ∧ (opsOf pre).length + 1 > 1) ↔
          (Diag.ambiguousAnonymousOperation ∈ st.diags ∨ st.doc.anon.isSome = true) := by
        rw [inv.amb, inv.anon]
        constructor
        · rintro ⟨h1, h2⟩
          by_cases hl : (opsOf pre).length > 1
          · exact Or.inl ⟨h1, hl⟩
          · exact Or.inr (firstIsAnon_of_single pre (by omega) h1)
        · rintro (⟨h1, h2⟩ | h)
          · exact ⟨h1, by omega⟩
          · have := firstIsAnon_pos pre h; exact ⟨this.1, by omega⟩
      by_cases hc : st.doc.named.any (fun p => p.name == some n) = true
      · -- collision
        have hmem : n ∈ namedNames pre := by have := inv.named n; rw [hc] at this; simpa using this.symm
        have hst : buildDef s st (.op o) = { st with diags := st.diags ++ (if st.doc.anon.isSome then [Diag.ambiguousAnonymousOperation] else []) ++ [Diag.operationNameCollision] } := by
          simp only [buildDef, hn, hc, if_true]
        rw [hst]
        refine ⟨?_, ?_, ?_, ?_, ?_⟩
        · simp only []; rw [hfa]; exact inv.anon
        · intro m; simp only []; rw [hnn, inv.named m]
          by_cases hm : m = n <;> simp [hm, hmem]
        · simp only []; rw [hnn, inv.empty]
          have : namedNames pre ≠ [] := by intro h; rw [h] at hmem; simp at hmem
          cases hl : namedNames pre <;> simp_all
        · simp only []; rw [hac, hlen, hambRhs]
          cases ha : st.doc.anon.isSome <;> simp [ha]
        · simp only []; rw [hnn, nodup_snoc]
          simp [hmem]
      · -- a new name
        have hc' : st.doc.named.any (fun p => p.name == some n) = false := by simpa using hc
        have hmem : n ∉ namedNames pre := by have := inv.named n; rw [hc'] at this; simpa using this.symm
        have hst : buildDef s st (.op o) = { st with doc := { st.doc with named := st.doc.named ++ [o'] }, diags := st.diags ++ (if st.doc.anon.isSome then [Diag.ambiguousAnonymousOperation] else []) ++ ds } := by
          simp only [buildDef, hn, hc', Bool.false_eq_true, if_false, hbo']
        rw [hst]
        have hdsA : Diag.ambiguousAnonymousOperation ∉ ds := fun h => (hds _ h).1 rfl
        have hdsC : Diag.operationNameCollision ∉ ds := fun h => (hds _ h).2 rfl
        refine ⟨?_, ?_, ?_, ?_, ?_⟩
        · simp only []; rw [hfa]; exact inv.anon
        · intro m; simp only [List.any_append, List.any_cons, List.any_nil, Bool.or_false]
          rw [hnn, inv.named m, hname, hn]
          by_cases hm : m = n
          · subst hm; simp
          · have : (some n == some m) = false := by simp; exact fun h => hm h.symm
            simp [this, hm]
        · simp only [hnn]; cases st.doc.named <;> cases namedNames pre <;> rfl
        · simp only []; rw [hac, hlen, hambRhs]
          cases ha : st.doc.anon.isSome <;> simp [ha, hdsA]
        · simp only []; rw [hnn, nodup_snoc]
          simp only [List.mem_append, hdsC, or_false]
          have : Diag.operationNameCollision ∉ (if st.doc.anon.isSome then [Diag.ambiguousAnonymousOperation] else []) := by
            split <;> simp
          simp only [this, or_false, inv.col]
          simp [hmem]
    | none =>
      have hnn : namedNames (pre ++ [.op o]) = namedNames pre := by rw [namedNames_snoc, hn]; simp
      have hac : anonCount (pre ++ [.op o]) = anonCount pre + 1 := by rw [anonCount_snoc, hn]; simp
      by_cases ha : st.doc.anon.isSome = true
      · have hst : buildDef s st (.op o) = { st with multipleAnonymous := true, diags := st.diags ++ (if st.multipleAnonymous then [] else [Diag.ambiguousAnonymousOperation]) ++ [Diag.ambiguousAnonymousOperation] } := by
          simp only [buildDef, hn, ha, if_true]
        rw [hst]
        have hf := inv.anon; rw [ha] at hf
        have hpos := firstIsAnon_pos pre hf.symm
        have hfa : firstIsAnon (pre ++ [.op o]) = firstIsAnon pre := by
          rw [firstIsAnon_snoc]
          cases ho : opsOf pre with
          | nil => rw [ho] at hpos; simp at hpos
          | cons x xs => simp
        refine ⟨?_, ?_, ?_, ?_, ?_⟩
        · simp only []; rw [hfa]; exact inv.anon
        · intro m; simp only []; rw [hnn]; exact inv.named m
        · simp only []; rw [hnn]; exact inv.empty
        · simp only [List.mem_append, List.mem_singleton, or_true, true_iff]
          rw [hac, hlen]; omega
        · simp only []; rw [hnn]
          simp only [List.mem_append, List.mem_singleton, reduceCtorEq, or_false]
          have : Diag.operationNameCollision ∉ (if st.multipleAnonymous then [] else [Diag.ambiguousAnonymousOperation]) := by
            split <;> simp
          simp only [this, or_false]; exact inv.col
      · have ha' : st.doc.anon.isSome = false := by simpa using ha
        by_cases hne : st.doc.named.isEmpty = true
        · -- the first operation of the document
          have hst : buildDef s st (.op o) = { st with doc := { st.doc with anon := some o' }, diags := st.diags ++ ds } := by
            simp only [buildDef, hn, ha', Bool.false_eq_true, if_false, hne, Bool.not_true, hbo']
          rw [hst]
          have hf := inv.anon; rw [ha'] at hf
          have he := inv.empty; rw [hne] at he
          have hnil := ops_nil_of pre hf.symm he.symm
          have hdsA : Diag.ambiguousAnonymousOperation ∉ ds := fun h => (hds _ h).1 rfl
          have hdsC : Diag.operationNameCollision ∉ ds := fun h => (hds _ h).2 rfl
          refine ⟨?_, ?_, ?_, ?_, ?_⟩
          · simp only [Option.isSome_some]; rw [firstIsAnon_snoc, hnil, hn]; simp
          · intro m; simp only []; rw [hnn]; exact inv.named m
          · simp only []; rw [hnn]; exact inv.empty
          · simp only [List.mem_append, hdsA, or_false]; rw [inv.amb, hac, hlen, hnil, (ops_nil pre hnil).2.2]; simp
          · simp only [List.mem_append, hdsC, or_false]; rw [hnn]; exact inv.col
        · have hne' : st.doc.named.isEmpty = false := by simpa using hne
          have hst : buildDef s st (.op o) = { st with diags := st.diags ++ [Diag.ambiguousAnonymousOperation] } := by
            simp only [buildDef, hn, ha', Bool.false_eq_true, if_false, hne', Bool.not_false, if_true]
          rw [hst]
          have he := inv.empty; rw [hne'] at he
          have hpos := ops_pos_of_named pre he.symm
          have hfa : firstIsAnon (pre ++ [.op o]) = firstIsAnon pre := by
            rw [firstIsAnon_snoc]
            cases ho : opsOf pre with
            | nil => rw [ho] at hpos; simp at hpos
            | cons x xs => simp
          refine ⟨?_, ?_, ?_, ?_, ?_⟩
          · simp only []; rw [hfa]; exact inv.anon
          · intro m; simp only []; rw [hnn]; exact inv.named m
          · simp only []; rw [hnn]; exact inv.empty
          · simp only [List.mem_append, List.mem_singleton, or_true, true_iff]
            rw [hac, hlen]; omega
          · simp only [List.mem_append, List.mem_singleton, reduceCtorEq, or_false]; rw [hnn]; exact inv.col

theorem ops_fold (s : Option Schema) : ∀ (l : Ast) (st : BuildState) (pre : Ast), OpsInv st pre →
    (∀ d ∈ l, ∀ o, d = .op o → (buildOp s o).isSome = true) → OpsInv (l.foldl (buildDef s) st) (pre ++ l)
  | [], st, pre, inv, _ => by simpa using inv
  | d :: l, st, pre, inv, hb => by
    have := ops_fold s l (buildDef s st d) (pre ++ [d]) (ops_step s st pre d inv (hb d (by simp)))
      (fun x hx => hb x (by simp [hx]))
    simpa [List.append_assoc] using this

theorem ops_inv_init : OpsInv {} [] :=
  ⟨rfl, by intro n; simp [namedNames, opsOf], rfl, by simp [anonCount, opsOf], by simp [namedNames, opsOf]⟩

theorem allOpsBuild_mem (s : Option Schema) (ast : Ast) (h : AllOpsBuild s ast) :
    ∀ d ∈ ast, ∀ o, d = .op o → (buildOp s o).isSome = true := by
  intro d hd o ho
  apply h
  subst ho
  simp only [opsOf, List.mem_filterMap]
  exact ⟨.op o, hd, rfl⟩

/-- §5.2.1.1 Operation Name Uniqueness: `OperationNameCollision` is reported iff two named operations
    have the same name (for documents all of whose operations have a root type in the schema — always,
    without a schema; an operation without root type is `UndefinedRootOperation`, apollo's own rule) -/
theorem operation_name_uniqueness_iff (s : Option Schema) (ast : Ast) (h : AllOpsBuild s ast) :
    Diag.operationNameCollision ∈ (build s ast).diags ↔ ¬ OperationNamesUnique ast := by
  have := ops_fold s ast {} [] ops_inv_init (allOpsBuild_mem s ast h)
  simpa [build, OperationNamesUnique] using this.col

/-- §5.2.2.1 Lone Anonymous Operation: `AmbiguousAnonymousOperation` is reported iff the document has
    an anonymous operation and more than one operation -/
theorem lone_anonymous_operation_iff (s : Option Schema) (ast : Ast) (h : AllOpsBuild s ast) :
    Diag.ambiguousAnonymousOperation ∈ (build s ast).diags ↔ ¬ LoneAnonymousOperation ast := by
  have := ops_fold s ast {} [] ops_inv_init (allOpsBuild_mem s ast h)
  simpa [build, LoneAnonymousOperation] using this.amb

theorem allOpsBuild_none (ast : Ast) : AllOpsBuild none ast := by
  intro o _; simp [buildOp]

end Apollo.Standalone.Rules

namespace Apollo.Standalone.Rules
open Apollo Apollo.Standalone

/-! ### (b) fragments — §5.5.1.1 Fragment Name Uniqueness -/

def fragsOf (ast : Ast) : List Frag := ast.filterMap fun d => match d with | .frag f => some f | _ => none
def fragNames (ast : Ast) : List Nat := (fragsOf ast).map (·.name)

/-- §5.5.1.1: no two fragment definitions have the same name -/
def FragmentNamesUnique (ast : Ast) : Prop := (fragNames ast).Nodup

/-- every fragment's type condition names a defined type (`Fragment::from_ast` succeeds); trivially
    true without a schema -/
def AllFragsBuild (s : Option Schema) (ast : Ast) : Prop :=
  ∀ f ∈ fragsOf ast, ∀ sc, s = some sc → (sc.kind f.tc).isSome = true

structure FragInv (st : BuildState) (pre : Ast) : Prop where
  names : ∀ n, st.doc.frags.any (fun g => g.name == n) = decide (n ∈ fragNames pre)
  col : Diag.fragmentNameCollision ∈ st.diags ↔ ¬ (fragNames pre).Nodup

theorem buildOp_no_fragCollision (s : Option Schema) (o o' : Op) (ds : List Diag) (h : buildOp s o = some (o', ds)) :
    Diag.fragmentNameCollision ∉ ds := by
  unfold buildOp at h
  cases s with
  | none =>
    simp only [Option.some.injEq, Prod.mk.injEq] at h
    obtain ⟨_, rfl⟩ := h
    intro hm; rcases buildSels_kinds _ _ _ _ hm with h | h | h <;> cases h
  | some sc =>
    simp only [] at h
    split at h
    · cases h
    · simp only [Option.some.injEq, Prod.mk.injEq] at h
      obtain ⟨_, rfl⟩ := h
      intro hm; rcases buildSels_kinds _ _ _ _ hm with h | h | h <;> cases h

theorem op_step_frags (s : Option Schema) (st : BuildState) (o : Op) :
    (buildDef s st (.op o)).doc.frags = st.doc.frags ∧
      (Diag.fragmentNameCollision ∈ (buildDef s st (.op o)).diags ↔ Diag.fragmentNameCollision ∈ st.diags) := by
  simp only [buildDef]
  cases hn : o.name with
  | some n =>
    simp only []
    split
    · refine ⟨rfl, ?_⟩
      simp only [List.mem_append, List.mem_singleton, reduceCtorEq, or_false]
      split <;> simp
    · cases hb : buildOp s o with
      | none =>
        refine ⟨rfl, ?_⟩
        simp only [List.mem_append, List.mem_singleton, reduceCtorEq, or_false]
        split <;> simp
      | some r =>
        obtain ⟨o', ds⟩ := r
        refine ⟨rfl, ?_⟩
        simp only [List.mem_append, buildOp_no_fragCollision s o o' ds hb, or_false]
        split <;> simp
  | none =>
    simp only []
    split
    · refine ⟨rfl, ?_⟩
      simp only [List.mem_append, List.mem_singleton, reduceCtorEq, or_false]
      split <;> simp
    · split
      · exact ⟨rfl, by simp⟩
      · cases hb : buildOp s o with
        | none => exact ⟨rfl, by simp⟩
        | some r =>
          obtain ⟨o', ds⟩ := r
          exact ⟨rfl, by simp [buildOp_no_fragCollision s o o' ds hb]⟩

theorem frag_step (s : Option Schema) (st : BuildState) (pre : Ast) (d : Def) (inv : FragInv st pre)
    (hb : ∀ f, d = .frag f → ∀ sc, s = some sc → (sc.kind f.tc).isSome = true) : FragInv (buildDef s st d) (pre ++ [d]) := by
  cases d with
  | typeSystem =>
    have e : fragNames (pre ++ [.typeSystem]) = fragNames pre := by simp [fragNames, fragsOf]
    simp only [buildDef]
    exact ⟨by intro n; rw [e]; exact inv.names n, by rw [e]; simpa using inv.col⟩
  | op o =>
    have e : fragNames (pre ++ [.op o]) = fragNames pre := by simp [fragNames, fragsOf]
    obtain ⟨h1, h2⟩ := op_step_frags s st o
    exact ⟨by intro n; rw [h1, e]; exact inv.names n, by rw [h2, e]; exact inv.col⟩
  | frag f =>
    have e : fragNames (pre ++ [.frag f]) = fragNames pre ++ [f.name] := by simp [fragNames, fragsOf]
    by_cases hc : st.doc.frags.any (fun g => g.name == f.name) = true
    · have hmem : f.name ∈ fragNames pre := by have := inv.names f.name; rw [hc] at this; simpa using this.symm
      simp only [buildDef, hc, if_true]
      refine ⟨?_, ?_⟩
      · intro n; rw [e, inv.names n]
        by_cases hm : n = f.name <;> simp [hm, hmem]
      · rw [e, nodup_snoc]; simp [hmem]
    · have hc' : st.doc.frags.any (fun g => g.name == f.name) = false := by simpa using hc
      have hmem : f.name ∉ fragNames pre := by have := inv.names f.name; rw [hc'] at this; simpa using this.symm
      have hks : ∀ parent, Diag.fragmentNameCollision ∉ (buildSels s parent f.sels).2 := by
        intro parent hm; rcases buildSels_kinds _ _ _ _ hm with h | h | h <;> cases h
      cases s with
      | none =>
        simp only [buildDef, hc', Bool.false_eq_true, if_false]
        refine ⟨?_, ?_⟩
        · intro n
          simp only [List.any_append, List.any_cons, List.any_nil, Bool.or_false]
          rw [e, inv.names n]
          by_cases hm : n = f.name
          · subst hm; simp
          · have : (f.name == n) = false := by simp; exact fun h => hm h.symm
            simp [this, hm]
        · simp only [List.mem_append, hks, or_false]; rw [e, nodup_snoc, inv.col]; simp [hmem]
      | some sc =>
        have hk : (sc.kind f.tc).isNone = false := by
          have := hb f rfl sc rfl
          cases h : sc.kind f.tc <;> simp_all
        simp only [buildDef, hc', Bool.false_eq_true, if_false, hk]
        refine ⟨?_, ?_⟩
        · intro n
          simp only [List.any_append, List.any_cons, List.any_nil, Bool.or_false]
          rw [e, inv.names n]
          by_cases hm : n = f.name
          · subst hm; simp
          · have : (f.name == n) = false := by simp; exact fun h => hm h.symm
            simp [this, hm]
        · simp only [List.mem_append, hks, or_false]; rw [e, nodup_snoc, inv.col]; simp [hmem]

theorem frag_fold (s : Option Schema) : ∀ (l : Ast) (st : BuildState) (pre : Ast), FragInv st pre →
    (∀ d ∈ l, ∀ f, d = .frag f → ∀ sc, s = some sc → (sc.kind f.tc).isSome = true) → FragInv (l.foldl (buildDef s) st) (pre ++ l)
  | [], st, pre, inv, _ => by simpa using inv
  | d :: l, st, pre, inv, hb => by
    have := frag_fold s l (buildDef s st d) (pre ++ [d]) (frag_step s st pre d inv (hb d (by simp)))
      (fun x hx => hb x (by simp [hx]))
    simpa [List.append_assoc] using this

/-- §5.5.1.1 Fragment Name Uniqueness: `FragmentNameCollision` is reported iff two fragment definitions
    have the same name (for documents whose fragment type conditions all name defined types — always,
    without a schema; an undefined one is `UndefinedTypeInNamedFragmentTypeCondition`, §5.5.1.2) -/
theorem fragment_name_uniqueness_iff (s : Option Schema) (ast : Ast) (h : AllFragsBuild s ast) :
    Diag.fragmentNameCollision ∈ (build s ast).diags ↔ ¬ FragmentNamesUnique ast := by
  have := frag_fold s ast {} [] ⟨by intro n; simp [fragNames, fragsOf], by simp [fragNames, fragsOf]⟩ (by
    intro d hd f hf sc hs
    apply h f _ sc hs
    subst hf
    simp only [fragsOf, List.mem_filterMap]
    exact ⟨.frag f, hd, rfl⟩)
  simpa [build, FragmentNamesUnique] using this.col

end Apollo.Standalone.Rules
