import ApolloModel.Proofs.ParserTree21
/-
C08 growth (pipeline), part 22 (stage iv): variable definitions — the shape of VARIABLE_DEFINITION nodes, what
`impl Convert for cst::VariableDefinition` reads from them, and that variable.rs builds them.
-/
set_option linter.unusedSimpArgs false
set_option linter.unusedVariables false

namespace Apollo.FromCst
open Apollo.Rowan Apollo.Ast
open Apollo.Parse (isJunk isJunkKind sigE nameNode)

variable {R : List Loc}

/-- the optional `DEFAULT_VALUE[= value]` child, as a list of significant children -/
def OptDefault (d : Option Value) (tail : List Elem) : Prop :=
  (d = none ∧ tail = []) ∨
  (∃ v cs eq ev, d = some v ∧ tail = [.node "DEFAULT_VALUE" cs] ∧ sigE cs = [.tok "EQ" eq, ev] ∧ ValTree v ev)

/-- `VARIABLE_DEFINITION[VARIABLE[$ NAME] : Type DefaultValue? Directives?]` -/
def VarDefTree (v : VarDef) (e : Elem) : Prop :=
  ∃ cs vcs dl col ety td tdir, e = .node "VARIABLE_DEFINITION" cs ∧ isValidName v.name = true ∧
    sigE vcs = [.tok "DOLLAR" dl, nameNode v.name] ∧ TyTree v.ty ety ∧ OptDefault v.default td ∧ OptDirs v.dirs tdir ∧
    sigE cs = .node "VARIABLE" vcs :: .tok "COLON" col :: ety :: (td ++ tdir)

theorem varDefTree_nodeP {v : VarDef} {e : Elem} (h : VarDefTree v e) : nodeP (· == "VARIABLE_DEFINITION") e = true := by
  obtain ⟨cs, _, _, _, _, _, _, rfl, _⟩ := h; simp [nodeP_node]

theorem optDefault_kinds {d : Option Value} {t : List Elem} (h : OptDefault d t) :
    t = [] ∨ ∃ c, t = [.node "DEFAULT_VALUE" c] := by
  rcases h with ⟨_, rfl⟩ | ⟨_, cs, _, _, _, rfl, _, _⟩
  · exact Or.inl rfl
  · exact Or.inr ⟨cs, rfl⟩

theorem isTypeKind_cases {k : SK} (h : isTypeKind k = true) : k = "NAMED_TYPE" ∨ k = "LIST_TYPE" ∨ k = "NON_NULL_TYPE" := by
  simp only [isTypeKind, Bool.or_eq_true, beq_iff_eq] at h
  rcases h with (h | h) | h
  · exact Or.inl h
  · exact Or.inr (Or.inl h)
  · exact Or.inr (Or.inr h)

/-- `impl Convert for cst::VariableDefinition` -/
theorem cVariableDefinition_conv (n : Nat) (v : VarDef) (e : Elem) (h : VarDefTree v e) (hs : size e ≤ n) :
    ConvE (fun R => @cVariableDefinition R n) v e := by
  obtain ⟨cs, vcs, dl, col, ety, td, tdir, rfl, hvn, hvsig, hty, hdef, hdirs, hsig⟩ := h
  obtain ⟨kt, tcs, rfl, hkt⟩ := hty.kind
  intro R s hp
  have hszcs : sizeList (sigE cs) ≤ sizeList cs := sizeList_sigE_le cs
  have hmemAll : ∀ x ∈ sigE cs, size x ≤ n := by
    intro x hx
    have := size_le_sizeList (mem_sigE hx)
    rw [size_node] at hs; omega
  -- the default value
  have hdflt : ∃ l, defaultOf n (⟨(.node "VARIABLE_DEFINITION" cs, s), hp⟩ : PE R) = some (v.default, l) := by
    unfold defaultOf
    rcases hdef with ⟨hd, rfl⟩ | ⟨dv, dcs, eq, ev, hd, rfl, hdsig, hdv⟩
    · have hnone : cs.find? (nodeP (· == "DEFAULT_VALUE")) = none := by
        rw [find_nodeP_sigE, hsig]
        rcases optDirs_kinds hdirs with rfl | ⟨c, rfl⟩ <;> rcases isTypeKind_cases hkt with rfl | rfl | rfl <;>
          simp [List.find?_cons, nodeP_node, nodeP_tok]
      rw [child_eq_childP, childP_none (R := R) (· == "DEFAULT_VALUE") _ cs s hp hnone, hd]
      exact ⟨[], optM_none _⟩
    · have hsome : cs.find? (nodeP (· == "DEFAULT_VALUE")) = some (.node "DEFAULT_VALUE" dcs) := by
        rw [find_nodeP_sigE, hsig]
        rcases isTypeKind_cases hkt with rfl | rfl | rfl <;> simp [List.find?_cons, nodeP_node, nodeP_tok]
      obtain ⟨s', h', hc⟩ := childP_some (R := R) (· == "DEFAULT_VALUE") _ cs s hp _ hsome
      have hfv : dcs.find? (nodeP isValueKind) = some ev := by
        rw [find_nodeP_sigE, hdsig]
        simp [List.find?_cons, nodeP_tok, hdv.nodeP]
      obtain ⟨s'', h'', hc2⟩ := childP_some (R := R) isValueKind "DEFAULT_VALUE" dcs s' h' ev hfv
      have hszv : size ev ≤ n := by
        have h1 : size (Elem.node "DEFAULT_VALUE" dcs) ≤ n := hmemAll _ (by rw [hsig]; simp)
        have h2 := size_le_sizeList (mem_sigE (cs := dcs) (e := ev) (by rw [hdsig]; simp))
        rw [size_node] at h1; omega
      obtain ⟨l2, hl2⟩ := cValue_valTree n dv ev hdv hszv R s'' h''
      rw [child_eq_childP, hc, hd]
      refine ⟨_, optM_some _ _ dv ([] ++ l2) ?_⟩
      unfold valueOf
      rw [hc2]
      exact bind_ok rfl hl2
  obtain ⟨l1, hl1⟩ := hdflt
  -- the type
  have hft : cs.find? (nodeP isTypeKind) = some (.node kt tcs) := by
    rw [find_nodeP_sigE, hsig]
    have : nodeP isTypeKind (Elem.node kt tcs) = true := hty.nodeP
    simp [List.find?_cons, nodeP_node, nodeP_tok, this, isTypeKind]
  obtain ⟨st, ht', hct⟩ := childP_some (R := R) isTypeKind _ cs s hp _ hft
  obtain ⟨l2, hl2⟩ := cType_tyTree n v.ty _ hty (hmemAll _ (by rw [hsig]; simp)) R st ht'
  -- the variable's name
  have hfv : cs.find? (nodeP (· == "VARIABLE")) = some (.node "VARIABLE" vcs) := by
    rw [find_nodeP_sigE, hsig]; simp [List.find?_cons, nodeP_node]
  obtain ⟨sv, hv', hcv⟩ := childP_some (R := R) (· == "VARIABLE") _ cs s hp _ hfv
  obtain ⟨l3, hl3⟩ := nameOf_node "VARIABLE" vcs v.name hvn (by rw [hvsig]; rfl) R sv hv'
  -- the directives
  have hfd : (sigE cs).find? (nodeP (· == "DIRECTIVES")) = tdir.head? := by
    rw [hsig]
    rcases optDefault_kinds hdef with rfl | ⟨c, rfl⟩ <;> rcases optDirs_kinds hdirs with rfl | ⟨c', rfl⟩ <;>
      rcases isTypeKind_cases hkt with rfl | rfl | rfl <;> simp [List.find?_cons, nodeP_node, nodeP_tok]
  obtain ⟨l4, hl4⟩ := directivesOf_conv n "VARIABLE_DEFINITION" cs v.dirs tdir hdirs hfd
    (by intro x hx; rw [hsig]; simp [hx]) (by omega) R s hp
  refine ⟨l1 ++ (([] ++ l2) ++ ([] ++ (l3 ++ (l4 ++ [])))), ?_⟩
  show cVariableDefinition n _ = _
  unfold cVariableDefinition
  refine bind_ok hl1 (bind_ok ?_ (bind_ok ?_ (bind_ok hl3 (bind_ok hl4 (pure_ok _)))))
  · unfold typeOf
    rw [hct]
    exact bind_ok rfl hl2
  · rw [child_eq_childP, hcv]
    rfl

end Apollo.FromCst

namespace Apollo.Parse
open Apollo.Rowan hiding Str
open Apollo.Lex hiding Str
open Apollo.FromCst (ValTree TyTree OptDirs DirsNode OptDefault VarDefTree All2)

/-- a fact without early exit holds with any early-exit condition -/
theorem Tr.lift {α : Type} {E : PState → Prop} {H : List Tok → Prop} {m : PI α} {R : α → List Tok → List Elem → Prop}
    (h : Tr NoE H m R) : Tr E H m R := by
  refine ⟨h.1, ?_⟩
  intro s a s' w hi he hlq hq hr hnd
  obtain ⟨cs, ad, a1, a2, a3, a4, a5⟩ := h.2 s a s' w hi he hlq hq hr hnd
  refine ⟨cs, ad, a1, a2, a3, a4, ?_⟩
  rcases a5 with r | f
  · exact Or.inl r
  · exact absurd f id

/-- **ty.rs** in the calculus: `ty` without a new error consumed ONE type reference and appended its tree -/
theorem tr_ty (n : Nat) {E : PState → Prop} {H : List Tok → Prop} :
    Tr E H (ty n) (fun _ cs e => ∃ (t : Ast.Ty) (e0 : Elem), TokIs cs (Ast.tTy t) ∧ e = [e0] ∧ TyTree t e0) := by
  apply Tr.lift
  refine ⟨good_ty n, ?_⟩
  intro s a s' w hi he hlq hq hr hnd
  have st : St s := ⟨w, hi, he, hlq⟩
  unfold ty at hr
  obtain ⟨r, sT, hT, h3⟩ := bind_dec (tyParse n) _ s s' () hr
  have aT := good_tyParse n s r sT w hT
  cases r with
  | ok =>
    simp only [] at h3; rw [run_pure] at h3; injection h3 with _ h3; subst h3
    rcases tyParse_tr n s sT _ st hT hnd with ⟨tk, hx⟩ | ⟨_, _, g⟩
    · cases hx
    · exact g
  | early =>
    simp only [] at h3; rw [run_pure] at h3; injection h3 with _ h3; subst h3
    rcases tyParse_tr n s sT _ st hT hnd with ⟨tk, hx⟩ | ⟨hx, _⟩ <;> cases hx
  | errTok tk =>
    exfalso
    simp only [] at h3
    exact hnd (errAtToken_adv tk sT s' aT.w h3).2
  | errNone =>
    exfalso
    simp only [] at h3
    have hndT : ¬ Doomed sT := fun d => hnd ((good_err sT () s' aT.w h3).doom d)
    rcases tyParse_tr n s sT _ st hT hndT with ⟨tk, hx⟩ | ⟨hx, _⟩ <;> cases hx

/-- `= Value` (constant) -/
def DefaultR (cs : List Tok) (e : List Elem) : Prop :=
  ∃ (v : Ast.Value) (dcs : List Elem) (t : Tok) (ev : Elem), TokIs cs (.p .eq :: Ast.tValue v) ∧ valueOk true v = true ∧
    e = [Elem.node "DEFAULT_VALUE" dcs] ∧ sigE dcs = [Elem.tok "EQ" t.data, ev] ∧ ValTree v ev

theorem tr_defaultValue (n : Nat) : Tr AtEof (HeadK .eq) (defaultValue n) (fun _ => DefaultR) := by
  unfold defaultValue
  have hb := tr_bind early_atEof (tr_bump (E := AtEof) "EQ" (by decide) (fun t => t.kind = .eq)
    (by intro t h; rw [h]; exact ⟨rfl, by decide⟩)) (fun _ => tr_value n true false)
  refine (tr_withNode early_atEof "DEFAULT_VALUE" (hsig_headK .eq rfl) (hb.mono (fun _ h => headP_of_headK h) (fun _ _ _ h => h))).mono
    (fun _ h => h) ?_
  rintro _ cs e ⟨inner, rfl, _, c1, c2, e1, e2, rfl, hin, ⟨t, hk, _, rfl, rfl⟩, v, ev, h1, h2, rfl, h4⟩
  exact ⟨v, inner, t, ev, TokIs.cons (by simp [astOfV, hk]) h1, h2, rfl, by rw [hin]; rfl, h4⟩

/-- what follows the name of a variable / input value definition: `: Type DefaultValue? Directives?` -/
def IvdTailR (cs : List Tok) (e : List Elem) : Prop :=
  ∃ (ty : Ast.Ty) (dflt : Option Ast.Value) (ds : List Ast.Directive) (tcol : Tok) (ety : Elem) (td tdir : List Elem),
    TokIs cs (.p .colon :: Ast.tTy ty ++ Ast.tDefault dflt ++ Ast.tDirectives ds) ∧
    (Ast.wfDefault dflt && Ast.wfDirs ds) = true ∧ TyTree ty ety ∧ OptDefault dflt td ∧ OptDirs ds tdir ∧
    e = Elem.tok "COLON" tcol.data :: ety :: (td ++ tdir)

theorem tr_ivdColon (n : Nat) : Tr AtEof (fun _ => True) (ivdColon n) (fun _ => IvdTailR) := by
  unfold ivdColon ivdType ivdAfterTy
  have hdirs : Tr AtEof (fun _ => True) (optDirsEnd n)
      (fun _ cs e => ∃ (ds : List Ast.Directive), TokIs cs (Ast.tDirectives ds) ∧ dirsOk true ds ∧ OptDirs ds e) :=
    (tr_optDirs n true).lift
  have hdef := tr_optKind early_atEof (H := fun _ => True) .eq (defaultValue n) _ DefaultR _
    ((tr_defaultValue n).mono (fun _ h => kindP_headK h) (fun _ _ _ h => h)) hdirs
  have htail := tr_bind early_atEof (tr_ty n (E := AtEof) (H := fun _ => True)) (fun _ => hdef)
  have hsel := tr_peek (E := AtEof) (H := fun _ => True)
    (f := fun k => if (k == some Kind.name || k == some Kind.lBracket) = true then
        (ty n >>= fun _ => optKind .eq (defaultValue n) (optDirsEnd n)) else err)
    (fun k => tr_ite _ (fun _ => htail.mono (fun _ _ => trivial) (fun _ _ _ hh => hh)) (fun _ => tr_err))
  have hcolon := tr_bind early_atEof (tr_bump (E := AtEof) "COLON" (by decide) (fun t => t.kind = .colon)
    (by intro t h; rw [h]; exact ⟨rfl, by decide⟩)) (fun _ => hsel)
  refine (tr_ifKind (E := AtEof) (H := fun _ => True) .colon _ err _
    (hcolon.mono (fun q hq => by obtain ⟨t, hh, hk⟩ := hq; exact ⟨t, hh, by simpa using hk⟩) (fun _ _ _ h => h)) tr_err).mono
    (fun _ h => h) ?_
  rintro _ cs e ⟨_, c3, c4, e3, e4, rfl, rfl, ⟨tc, hkc, _, rfl, rfl⟩, _, c5, c6, e5, e6, rfl, rfl, ⟨ty, ety, ht1, rfl, ht3⟩,
    c7, c8, e7, e8, rfl, rfl, hd, ds, hds1, hds2, hds3⟩
  have hcol : TokIs [tc] [Ast.Tok.p .colon] := TokIs.single tc _ (by simp [astOfV, hkc])
  rcases hd with ⟨v, dcs, teq, ev, hv1, hv2, rfl, hv4, hv5⟩ | ⟨rfl, rfl⟩
  · refine ⟨ty, some v, ds, tc, ety, _, e8, ?_, ?_, ht3, Or.inr ⟨v, dcs, teq.data, ev, rfl, rfl, hv4, hv5⟩, hds3, rfl⟩
    · have := hcol.append (ht1.append (hv1.append hds1))
      simpa [Ast.tDefault, List.append_assoc] using this
    · simp [Ast.wfDefault, valueOk_wf true v hv2, dirsOk_wf true ds hds2]
  · refine ⟨ty, none, ds, tc, ety, [], e8, ?_, ?_, ht3, Or.inl ⟨rfl, rfl⟩, hds3, rfl⟩
    · have := hcol.append (ht1.append hds1)
      simpa [Ast.tDefault, List.append_assoc] using this
    · simp [Ast.wfDefault, dirsOk_wf true ds hds2]

/-- one variable definition -/
def VarDefR (cs : List Tok) (e : List Elem) : Prop :=
  ∃ (v : Ast.VarDef) (ev : Elem), TokIs cs (Ast.tVarDef v) ∧ (Ast.wfDefault v.default && Ast.wfDirs v.dirs) = true ∧
    e = [ev] ∧ VarDefTree v ev

/-- `$name`, with the shape of the node -/
theorem tr_variableNodeX : Tr AtEof (HeadK .dollar) variableNode
    (fun _ cs e => ∃ (x : Ast.Str) (vcs : List Elem) (dl : Rowan.Str), TokIs cs [.p .dollar, .name x] ∧ isValidName x = true ∧
      e = [Elem.node "VARIABLE" vcs] ∧ sigE vcs = [Elem.tok "DOLLAR" dl, nameNode x]) := by
  unfold variableNode
  have hb := tr_bind (E := AtEof) early_atEof
    (tr_bump (E := AtEof) "DOLLAR" (by decide) (fun t => t.kind = .dollar) (by intro t h; rw [h]; exact ⟨rfl, by decide⟩))
    (fun _ => tr_name (E := AtEof) (H := fun _ => True))
  have hn := tr_withNode early_atEof "VARIABLE" (H := HeadP (fun t : Tok => t.kind = .dollar))
    (by rintro q ⟨t, hh, hk⟩
        cases q with
        | nil => cases hh
        | cons a b => simp only [List.head?_cons, Option.some.injEq] at hh; subst hh; exact ⟨a, b, rfl, by rw [hk]; rfl⟩) hb
  refine hn.mono (fun _ h => headP_of_headK h) ?_
  rintro _ cs e ⟨inner, rfl, _, c1, c2, e1, e2, rfl, hin, ⟨t, hk, _, rfl, rfl⟩, t2, hk2, hv2, rfl, rfl⟩
  refine ⟨t2.data, inner, t.data, ?_, hv2, rfl, by rw [hin]; rfl⟩
  exact TokIs.cons (by simp [astOfV, hk]) (TokIs.single t2 _ (by simp [astOfV, hk2]))

theorem tr_variableDefinition (n : Nat) : Tr AtEof (HeadK .dollar) (variableDefinition n) (fun _ => VarDefR) := by
  rw [variableDefinition_eq]
  have hb := tr_bind early_atEof tr_variableNodeX (fun _ => tr_ivdColon n)
  refine (tr_withNode early_atEof "VARIABLE_DEFINITION" (hsig_headK .dollar rfl) hb).mono (fun _ h => h) ?_
  rintro _ cs e ⟨inner, rfl, _, c1, c2, e1, e2, rfl, hin, ⟨x, vcs, dl, hv1, hv2, rfl, hv4⟩,
    ty, dflt, ds, tcol, ety, td, tdir, ht1, hwf, hty, hdf, hdr, rfl⟩
  refine ⟨⟨x, ty, dflt, ds⟩, _, ?_, hwf, rfl, inner, vcs, dl, tcol.data, ety, td, tdir, rfl, hv2, hv4, hty, hdf, hdr, by rw [hin]; simp⟩
  have := hv1.append ht1
  simpa [Ast.tVarDef, List.append_assoc] using this

/-! ### `( VariableDefinition+ )` -/

theorem itemsT_varDefs : ∀ (cs : List Tok) (e : List Elem), ItemsT VarDefR cs e →
    ∃ vs : List Ast.VarDef, TokIs cs (Ast.tVarDefItems vs) ∧ Ast.wfVarDefs vs = true ∧ All2 (fun e v => VarDefTree v e) e vs := by
  rintro cs e ⟨items, rfl, rfl, hall⟩
  induction items with
  | nil => exact ⟨[], TokIs.nil, rfl, All2.nil⟩
  | cons i items ih =>
    obtain ⟨vs, h1, h2, h3⟩ := ih (fun j hj => hall j (List.mem_cons_of_mem _ hj))
    obtain ⟨v, ev, hv1, hv2, hv3, hv4⟩ := hall i List.mem_cons_self
    refine ⟨v :: vs, ?_, ?_, ?_⟩
    · simp only [List.map_cons, List.flatten_cons, Ast.tVarDefItems]
      exact hv1.append h1
    · simp only [Ast.wfVarDefs, Bool.and_eq_true] at hv2 ⊢
      exact ⟨hv2, h2⟩
    · simp only [List.map_cons, List.flatten_cons, hv3]
      exact All2.cons hv4 h3

/-- `VARIABLE_DEFINITIONS[ ( VariableDefinition+ ) ]` -/
def VarDefsNode (vs : List Ast.VarDef) (e : Elem) : Prop :=
  ∃ cs lp rp es, e = Elem.node "VARIABLE_DEFINITIONS" cs ∧ sigE cs = Elem.tok "L_PAREN" lp :: (es ++ [Elem.tok "R_PAREN" rp]) ∧
    All2 (fun e v => VarDefTree v e) es vs

def VarDefsR (cs : List Tok) (e : List Elem) : Prop :=
  ∃ (vs : List Ast.VarDef) (ev : Elem), vs ≠ [] ∧ TokIs cs (Ast.tVarDefs vs) ∧ Ast.wfVarDefs vs = true ∧ e = [ev] ∧ VarDefsNode vs ev

theorem tr_varDefsTail (n : Nat) :
    Tr NoE (HeadK .dollar) (variableDefinition n >>= fun _ => peekWhileKind .dollar (variableDefinition n) >>= fun _ =>
        expect .rParen "R_PAREN")
      (fun _ cs e => ∃ (vs : List Ast.VarDef) (t : Tok), vs ≠ [] ∧ t.kind = .rParen ∧
        TokIs cs (Ast.tVarDefItems vs ++ [.p .rParen]) ∧ Ast.wfVarDefs vs = true ∧
        ∃ es, e = es ++ [Elem.tok "R_PAREN" t.data] ∧ All2 (fun e v => VarDefTree v e) es vs) := by
  have hloop := tr_kindWhile (E := AtEof) early_atEof (H := fun _ => True) .dollar (variableDefinition n) VarDefR
    ((tr_variableDefinition n).mono (fun _ h => kindP_headK h) (fun _ _ _ h => h))
  have h12 := tr_bind early_atEof (tr_variableDefinition n) (fun _ => hloop)
  have hc := tr_close .rParen "R_PAREN" (by decide) rfl (by decide) h12
  refine (hc.of_run (fun s => run_assoc _ _ _ s)).mono (fun _ h => h) ?_
  rintro _ cs e ⟨_, c1, e1, t, rfl, rfl, hk, _, x1, x2, y1, y2, rfl, rfl, hfirst, hitems⟩
  obtain ⟨vs, h1, h2, h3⟩ := itemsT_varDefs x2 y2 hitems
  obtain ⟨v, ev, hv1, hv2, hv3, hv4⟩ := hfirst
  refine ⟨v :: vs, t, by simp, hk, ?_, ?_, ev :: y2, by rw [hv3]; simp, All2.cons hv4 h3⟩
  · have hp : TokIs [t] [Ast.Tok.p .rParen] := TokIs.single t _ (by simp [astOfV, hk])
    have := (hv1.append h1).append hp
    simpa [Ast.tVarDefItems, List.append_assoc] using this
  · simp only [Ast.wfVarDefs, Bool.and_eq_true] at hv2 ⊢
    exact ⟨hv2, h2⟩

/-- **variable.rs `variable_definitions`** entered on `(` -/
theorem tr_variableDefinitions (n : Nat) : Tr NoE (HeadK .lParen) (variableDefinitions n) (fun _ => VarDefsR) := by
  unfold variableDefinitions
  have hgood : Good (peekWhileKind .dollar (variableDefinition n) >>= fun _ => expect .rParen "R_PAREN") :=
    good_bind _ _ (good_peekWhileKind _ _ (tr_variableDefinition n).1) (fun _ => good_expect _ _)
  have hsel : Tr NoE (fun _ => True) (peek >>= fun k => if k == some Kind.dollar then
      (variableDefinition n >>= fun _ => peekWhileKind .dollar (variableDefinition n) >>= fun _ => expect .rParen "R_PAREN")
      else (err >>= fun _ => peekWhileKind .dollar (variableDefinition n) >>= fun _ => expect .rParen "R_PAREN")) _ :=
    tr_ifKind .dollar _ _ _ ((tr_varDefsTail n).mono (fun _ h => kindP_headK h) (fun _ _ _ h => h))
      (tr_never (acc_err' _ hgood))
  have hb := tr_bind early_false (tr_bump (E := NoE) "L_PAREN" (by decide) (fun t => t.kind = .lParen)
    (by intro t h; rw [h]; exact ⟨rfl, by decide⟩)) (fun _ => hsel)
  refine (tr_withNode early_false "VARIABLE_DEFINITIONS" (hsig_headK .lParen rfl) (hb.mono (fun _ h => headP_of_headK h) (fun _ _ _ h => h))).mono
    (fun _ h => h) ?_
  rintro _ cs e ⟨inner, rfl, _, c1, c2, e1, e2, rfl, hin, ⟨t, hk, _, rfl, rfl⟩, vs, t2, hne, hk2, h1, h2, es, rfl, hall⟩
  refine ⟨vs, _, hne, ?_, h2, rfl, inner, t.data, t2.data, es, rfl, by rw [hin]; simp, hall⟩
  have hp : TokIs [t] [Ast.Tok.p .lParen] := TokIs.single t _ (by simp [astOfV, hk])
  have := hp.append h1
  cases vs with
  | nil => exact absurd rfl hne
  | cons a r => simpa [Ast.tVarDefs] using this

end Apollo.Parse
