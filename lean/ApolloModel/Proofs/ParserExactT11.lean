import ApolloModel.Proofs.ParserExactT10
/-
Exact soundness for the type-system family, part 11: `schema` definition and extension.  Because of the recorded C05
finding (`schema { query: }` parses with zero errors) the clause `∀ r ∈ roots, r.2 ≠ none` of `looseFit` is NOT
established by an error-free run; both lemmas are stated against `looseFitX` = `looseFit` without that clause.
-/
set_option linter.unusedSimpArgs false
namespace Apollo.Parse.Exact
open Apollo.Rowan hiding Str
open Apollo.Lex hiding Str

/-- `looseFit` without the requirement that every root operation type has its named type (the recorded C05 finding:
    the parser accepts `schema { query: }`) -/
def looseFitX (b : Nat) : LooseDef → Prop
  | .schema _ ds roots => dirsFit true b ds ∧ roots ≠ []
  | .schemaExt ds roots => (ds ≠ [] ∨ roots ≠ []) ∧ dirsFit true b ds
  | l => looseFit b l

theorem looseFitX_of_looseFit (b : Nat) (l : LooseDef) (h : looseFit b l) : looseFitX b l := by
  cases l <;> first
    | exact h
    | exact ⟨h.1, h.2.1⟩

/-- with all root names present the two agree -/
theorem looseFit_of_looseFitX (b : Nat) (l : LooseDef)
    (hr : ∀ d ds roots, (l = .schema d ds roots ∨ l = .schemaExt ds roots) → ∀ r ∈ roots, r.2 ≠ none)
    (h : looseFitX b l) : looseFit b l := by
  cases l <;> first
    | exact h
    | exact ⟨h.1, h.2, hr _ _ _ (Or.inl rfl)⟩
    | exact ⟨h.1, h.2, hr none _ _ (Or.inr rfl)⟩

/-- the run of `Description? keyword tail` is a run of the prefix followed by a run of the tail -/
theorem kwShape_split (word : String) (sk : SK) (tail : PI Unit) (s s' : PState)
    (h : (optKind .stringValue description (optKw word sk tail)).run s = .ok () s') :
    ∃ s1, (optKind .stringValue description (optKw word sk (pure ()))).run s = .ok () s1 ∧ tail.run s1 = .ok () s' := by
  unfold optKind optKw at *
  have hkw : ∀ q q', (peekData >>= fun d => if kwOpt word d then (bump sk >>= fun _ => tail) else tail).run q = .ok () q' →
      ∃ s1, (peekData >>= fun d => if kwOpt word d then (bump sk >>= fun _ => (pure () : PI Unit)) else (pure () : PI Unit)).run q = .ok () s1 ∧
        tail.run s1 = .ok () q' := by
    intro q q' hq
    obtain ⟨d, qd, a, b⟩ := bind_dec peekData _ q q' () hq
    by_cases hc : kwOpt word d = true
    · simp only [hc, if_true] at b
      obtain ⟨_, qb, b1, b2⟩ := bind_dec (bump sk) _ qd q' () b
      exact ⟨qb, bind_intro _ _ q qd d _ a (by simp only [hc, if_true]; exact bind_intro _ _ qd qb () _ b1 rfl), b2⟩
    · simp only [hc, Bool.false_eq_true, if_false] at b
      exact ⟨qd, bind_intro _ _ q qd d _ a (by simp only [hc, Bool.false_eq_true, if_false]; rfl), b⟩
  obtain ⟨k, qp, a, b⟩ := bind_dec peek _ s s' () h
  by_cases hc : (k == some Kind.stringValue) = true
  · simp only [hc, if_true] at b
    obtain ⟨_, qb, b1, b2⟩ := bind_dec description _ qp s' () b
    obtain ⟨s1, c1, c2⟩ := hkw qb s' b2
    exact ⟨s1, bind_intro _ _ s qp k _ a (by simp only [hc, if_true]; exact bind_intro _ _ qp qb () _ b1 c1), c2⟩
  · simp only [hc, Bool.false_eq_true, if_false] at b
    obtain ⟨s1, c1, c2⟩ := hkw qp s' b
    exact ⟨s1, bind_intro _ _ s qp k _ a (by simp only [hc, Bool.false_eq_true, if_false]; exact c1), c2⟩

def RootsR (x : List Ast.Tok) : Prop := ∃ roots, roots ≠ [] ∧ x = .p .lCurly :: tRootOpItemsF roots ++ [.p .rCurly]

theorem acc_sBraces : Acc E0 (fun _ => True) sBraces (fun _ => RootsR) := by
  unfold sBraces
  refine acc_ifKind .lCurly _ _ _ ?_ acc_err
  refine (acc_rootsBlock _ _ (acc_expect .rCurly "R_CURLY" (.p .rCurly) (by intro t ht; simp [astOfV, ht]) rfl (by decide))).mono
    (fun _ h => h) ?_
  rintro _ x ⟨roots, x2, hne, e, h2⟩
  exact ⟨roots, hne, by rw [e, h2]⟩

theorem good_rootOp : Good rootOperationTypeDefinition := (acc_rootOperationTypeDefinition (E := fun _ => False) early_false).1

theorem se_rootsBlock (K : PI Unit) (gK : Good K) (hK : SE K) : SE (rootsBlock K) := by
  unfold rootsBlock
  exact se_bindR (good_bump _) (fun _ => se_bindR good_srcLen (fun len =>
    se_bindR (good_flagLoop .name rootOperationTypeDefinition good_rootOp (len + 3) false)
      (fun has => se_ite _ _ _ (se_bindR good_err (fun _ => hK)) hK)))

theorem good_rootsBlock (K : PI Unit) (gK : Good K) : Good (rootsBlock K) := by
  unfold rootsBlock
  exact good_bind _ _ (good_bump _) (fun _ => good_bind _ _ good_srcLen (fun len =>
    good_bind _ _ (good_flagLoop .name rootOperationTypeDefinition good_rootOp (len + 3) false)
      (fun has => good_ite _ _ _ (good_bind _ _ good_err (fun _ => gK)) gK)))

theorem good_sBraces : Good sBraces := acc_sBraces.1

theorem se_sBraces : SE sBraces := by
  unfold sBraces
  exact se_bindR good_peek (fun _ => se_ite _ _ _ (se_rootsBlock _ (good_expect _ _) (se_expect _ _)) se_err)

/-- `Directives[Const]? { RootOperationTypeDefinition+ }` -/
theorem schemaTail_sound (n : Nat) (s s' : PState) (w : TW s) (he : EofEnd s)
    (h : (optKind .at (directives n true) sBraces).run s = .ok () s') (hnd : ¬ Doomed s') :
    Cons s s' (fun x => ∃ ds roots, roots ≠ [] ∧ x = Ast.tDirectives ds ++ .p .lCurly :: tRootOpItemsF roots ++ [.p .rCurly] ∧
      dirsFit true (bud s) ds) := by
  unfold optKind at h
  obtain ⟨s1, h1, h2⟩ := optThen_dec .at (directives n true) sBraces s s' h
  have a1 := good_optDirsEnd n s () s1 w h1
  have hnd1 : ¬ Doomed s1 := fun d => hnd ((good_sBraces s1 () s' a1.w h2).doom d)
  have c1 := optDirsEnd_sound n s s1 w he h1 hnd1
  have c2 := cons_of_acc acc_sBraces s1 s' () a1.w c1.eofEnd trivial h2 hnd
  refine (c1.seq c2).weaken ?_
  rintro z ⟨x, y, rfl, ⟨ds, rfl, hds⟩, roots, hne, rfl⟩
  exact ⟨ds, roots, hne, by simp, hds⟩

/-- **schema definition**, exact up to the recorded finding: in the shape `defSound_of_loose` (ParserExactS14) expects,
    with `looseFitX` (no root-name clause) in place of `looseFit` -/
theorem schemaDef_soundX (n : Nat) (s s' : PState) (w : TW s) (he : EofEnd s) (hq : LexQ (Toks s)) (hs : DStart "schema".toList (Toks s))
    (hr : (schemaDefinition n).run s = .ok () s') (hnd : ¬ Doomed s') :
    ∃ (cs : List Tok) (l : LooseDef), Toks s = cs ++ Toks s' ∧ NoEof cs ∧ EofEnd s' ∧ TokIs (sig cs) l.toks ∧ looseFitX (bud s) l ∧
      Settled s' ∧ (openBody l → ∀ t, s'.current = some t → t.kind ≠ .lCurly) := by
  rw [schemaDefinition_eq] at hr
  have gT : Good (optKind .at (directives n true) sBraces) :=
    good_bind _ _ good_peek (fun _ => good_ite _ _ _ (good_bind _ _ (good_directives n true) (fun _ => good_sBraces)) good_sBraces)
  have hset : Settled s' := by
    have hT : SE (optKind .at (directives n true) sBraces) :=
      se_bindR good_peek (fun _ => se_ite _ _ _ (se_bindR (good_directives n true) (fun _ => se_sBraces)) se_sBraces)
    have hK : SE (optKw "schema" "schema_KW" (optKind .at (directives n true) sBraces)) :=
      se_bindR good_peekData (fun _ => se_ite _ _ _ (se_bindR (good_bump _) (fun _ => hT)) hT)
    have hB : SE (optKind .stringValue description (optKw "schema" "schema_KW" (optKind .at (directives n true) sBraces))) :=
      se_bindR good_peek (fun _ => se_ite _ _ _ (se_bindR (acc_description (E := fun _ => False) early_false).1 (fun _ => hK)) hK)
    rcases se_withNode _ _ hB.sp s () s' w hr with h1 | h1
    · exact h1
    · exact absurd h1 hnd
  obtain ⟨t, rest, htq, hni⟩ := dStart_sig "schema" _ hs
  obtain ⟨s1, s2, e1, h1, o2⟩ := withNode_peeked _ _ s s' () t rest w htq hni hr
  have hnd2 : ¬ Doomed s2 := fun d => hnd (o2.doomed.mpr d)
  have he1 : EofEnd s1 := eofEnd_eat he e1 (by intro x hx; cases hx)
  have h0 : Toks s = Toks s1 := by simpa using e1.toks
  obtain ⟨sm, hp, ht⟩ := kwShape_split "schema" "schema_KW" _ s1 s2 h1
  have hacc := accL_defEnteredBody "schema" kwWord_schema "schema_KW" (pure () : PI Unit) (fun x => x = [])
    ((acc_pure E0 LexQ ()).mono (fun _ h => h) (fun _ _ h => h.2))
  have am := hacc.1 s1 () sm e1.w hp
  have hndm : ¬ Doomed sm := fun d => hnd2 ((gT sm () s2 am.w ht).doom d)
  have c1 := cons_of_acc hacc s1 sm () e1.w he1 ⟨by rw [← h0]; exact hq, by rw [← h0]; exact defStart_of_DStart "schema" _ hs⟩ hp hndm
  have c2 := schemaTail_sound n sm s2 am.w c1.eofEnd ht hnd2
  have c := (c1.seq c2).transport h0 o2.toks (eofEnd_same _ _ c2.eofEnd o2.current o2.lx o2.errors)
  obtain ⟨cs, x, a, b, e, d, x1, x2, rfl, ⟨desc, x3, rfl, rfl⟩, ds, roots, hne, rfl, hds⟩ := c
  rw [bud_adv am, bud_eat e1] at hds
  refine ⟨cs, .schema desc ds roots, a, b, e, ?_, ⟨hds, hne⟩, hset, fun ho => ho.elim⟩
  simpa [LooseDef.toks, schemaToks, kwPart, List.append_assoc] using d

/-! ### schema extension -/

def RootsX (m : Bool) (cur : Option Tok) (x : List Ast.Tok) : Prop :=
  RootsR x ∨ (x = [] ∧ m = true ∧ ∀ t, cur = some t → t.kind ≠ .lCurly)

theorem good_schemaExtBraces (m : Bool) : Good (schemaExtBraces m) := by
  unfold schemaExtBraces
  exact good_bind _ _ good_peek (fun _ => good_ite _ _ _
    (good_rootsBlock _ (good_bind _ _ (good_expect _ _) (fun _ => good_extEnd true))) (good_extEnd m))

theorem sp_schemaExtBraces (m : Bool) : SP (schemaExtBraces m) := by
  unfold schemaExtBraces
  have gK : Good (expect .rCurly "R_CURLY" >>= fun _ => extEnd true) := good_bind _ _ (good_expect _ _) (fun _ => good_extEnd true)
  have hK : SE (expect .rCurly "R_CURLY" >>= fun _ => extEnd true) :=
    se_bindL (good_expect _ _) (fun _ => good_extEnd true) (se_expect _ _) (fun _ => sp_extEnd true)
  exact sp_bind good_peek (fun _ => good_ite _ _ _ (good_rootsBlock _ gK) (good_extEnd m)) sp_peek
    (fun _ => sp_ite _ _ _ (se_rootsBlock _ gK hK).sp (sp_extEnd m))

theorem schemaExtBraces_sound (m : Bool) (s s' : PState) (w : TW s) (he : EofEnd s)
    (h : (schemaExtBraces m).run s = .ok () s') (hnd : ¬ Doomed s') : Cons s s' (RootsX m s'.current) := by
  unfold schemaExtBraces at h
  obtain ⟨sP, o, p, hor⟩ := ifPeek_dec .lCurly _ _ s s' () w h
  have heP := p.eofEnd he
  rcases hor with ⟨hkc, h5⟩ | ⟨hkc, h5⟩
  · obtain ⟨tc, rfl, hkc2⟩ : ∃ tc, o = some tc ∧ tc.kind = .lCurly := by
      cases o with
      | none => simp at hkc
      | some tc => exact ⟨tc, rfl, by simpa using hkc⟩
    have hK : Acc E0 (fun _ => True) (expect .rCurly "R_CURLY" >>= fun _ => extEnd true) (fun _ x => x = [.p .rCurly]) := by
      refine (acc_bind early_false (acc_expect .rCurly "R_CURLY" (.p .rCurly) (by intro t ht; simp [astOfV, ht]) rfl (by decide))
        (fun _ => acc_extEnd true)).mono (fun _ h => h) ?_
      rintro _ x ⟨_, x1, x2, e, h1, h2⟩
      rw [e, h1, h2]; rfl
    have c := cons_of_acc (acc_rootsBlock _ _ hK) sP s' () p.w heP ⟨tc, by rw [p.head_cons]; rfl, by simp [hkc2]⟩ h5 hnd
    refine (c.transport p.toks.symm rfl c.eofEnd).weaken ?_
    rintro z ⟨roots, x2, hne, rfl, rfl⟩
    exact Or.inl ⟨roots, hne, rfl⟩
  · obtain ⟨hm, hss⟩ := extEnd_ok m sP s' p.w heP h5 hnd
    rw [hss]
    refine (Cons.nil p.toks heP).weaken ?_
    rintro z rfl
    refine Or.inr ⟨rfl, hm, ?_⟩
    intro t ht hk
    rw [p.current] at ht
    subst ht
    exact hkc (by simp [hk])

/-- `Directives[Const]? next` of an extension, generically in `next` -/
theorem extDirs_soundG (n : Nat) (next : Bool → PI Unit) (gn : ∀ m, Good (next m)) (R : Bool → Option Tok → List Ast.Tok → Prop)
    (hn : ∀ m s s', TW s → EofEnd s → (next m).run s = .ok () s' → ¬ Doomed s' → Cons s s' (R m s'.current))
    (meets : Bool) (s s' : PState) (w : TW s) (he : EofEnd s) (h : (extDirs n next meets).run s = .ok () s') (hnd : ¬ Doomed s') :
    Cons s s' (fun x => ∃ ds x2, x = Ast.tDirectives ds ++ x2 ∧ dirsFit true (bud s) ds ∧
      ((ds ≠ [] ∧ R true s'.current x2) ∨ (ds = [] ∧ R meets s'.current x2))) := by
  unfold extDirs optKind2 at h
  obtain ⟨sP, o, p, hor⟩ := ifPeek_dec .at _ _ s s' () w h
  have heP := p.eofEnd he
  rcases hor with ⟨hkc, h5⟩ | ⟨hkc, h5⟩
  · obtain ⟨tc, rfl, hkc2⟩ : ∃ tc, o = some tc ∧ tc.kind = .at := by
      cases o with
      | none => simp at hkc
      | some tc => exact ⟨tc, rfl, by simpa using hkc⟩
    obtain ⟨_, sD, h6, h7⟩ := bind_dec (directives n true) _ sP s' () h5
    have aD := good_directives n true sP () sD p.w h6
    have hndD : ¬ Doomed sD := fun d => hnd ((gn true sD () s' aD.w h7).doom d)
    have c1 := directives_at_sound n sP sD tc _ p.w heP p.head_cons hkc2 h6 hndD
    have c2 := hn true sD s' aD.w c1.eofEnd h7 hnd
    refine ((c1.seq c2).transport p.toks.symm rfl c2.eofEnd).weaken ?_
    rintro z ⟨x, y, rfl, ⟨ds, rfl, hne, hds⟩, hy⟩
    rw [bud_peek p] at hds
    exact ⟨ds, y, rfl, hds, Or.inl ⟨hne, hy⟩⟩
  · have c2 := hn meets sP s' p.w heP h5 hnd
    refine (c2.transport p.toks.symm rfl c2.eofEnd).weaken ?_
    intro z hz
    exact ⟨[], z, by simp [Ast.tDirectives], (by intro d hd; cases hd), Or.inr ⟨rfl, hz⟩⟩

/-- **schema extension**, exact up to the recorded finding (`looseFitX`, see `schemaDef_soundX`) -/
theorem schemaExt_soundX (n : Nat) (s s' : PState) (w : TW s) (he : EofEnd s) (hq : LexQ (Toks s)) (hs : EStart "schema".toList (Toks s))
    (hr : (schemaExtension n).run s = .ok () s') (hnd : ¬ Doomed s') :
    ∃ (cs : List Tok) (l : LooseDef), Toks s = cs ++ Toks s' ∧ NoEof cs ∧ EofEnd s' ∧ TokIs (sig cs) l.toks ∧ looseFitX (bud s) l ∧
      Settled s' ∧ (openBody l → ∀ t, s'.current = some t → t.kind ≠ .lCurly) := by
  rw [schemaExtension_eq] at hr
  have gt : Good (extDirs n schemaExtBraces false) := good_extDirs n _ good_schemaExtBraces false
  have hset := ext2_settled "SCHEMA_EXTENSION" "extend_KW" "schema_KW" _ gt
    (sp_extDirs n _ good_schemaExtBraces sp_schemaExtBraces false) s s' w hr hnd
  have c := ext2_sound "SCHEMA_EXTENSION" "schema" kwWord_schema "extend_KW" "schema_KW" (extDirs n schemaExtBraces false)
    (fun b cur x => ∃ ds x2, x = Ast.tDirectives ds ++ x2 ∧ dirsFit true b ds ∧
      ((ds ≠ [] ∧ RootsX true cur x2) ∨ (ds = [] ∧ RootsX false cur x2))) gt
    (fun q q' wq heq hrq hndq => extDirs_soundG n _ good_schemaExtBraces RootsX
      (fun m q1 q2 w1 he1 h1 hnd1 => schemaExtBraces_sound m q1 q2 w1 he1 h1 hnd1) false q q' wq heq hrq hndq)
    s s' w he hq hs hr hnd
  obtain ⟨cs, x, a, b, e, d, x1, rfl, ds, x2, rfl, hds, hor⟩ := c
  have key : (∃ roots, roots ≠ [] ∧ x2 = .p .lCurly :: tRootOpItemsF roots ++ [.p .rCurly]) ∨
      (x2 = [] ∧ ds ≠ [] ∧ ∀ t, s'.current = some t → t.kind ≠ .lCurly) := by
    rcases hor with ⟨hne, hx⟩ | ⟨_, hx⟩
    · rcases hx with hx | ⟨h1, _, h3⟩
      · exact Or.inl hx
      · exact Or.inr ⟨h1, hne, h3⟩
    · rcases hx with hx | ⟨_, h2, _⟩
      · exact Or.inl hx
      · cases h2
  rcases key with ⟨roots, hne, rfl⟩ | ⟨rfl, hdne, hcur⟩
  · have hemp : roots.isEmpty = false := by cases roots with | nil => exact absurd rfl hne | cons _ _ => rfl
    refine ⟨cs, .schemaExt ds roots, a, b, e, ?_, ⟨Or.inr hne, hds⟩, hset, ?_⟩
    · simpa [LooseDef.toks, kwE, Ast.tBraced, hemp, List.append_assoc] using d
    · intro ho; exact absurd ho hne
  · refine ⟨cs, .schemaExt ds [], a, b, e, ?_, ⟨Or.inl hdne, hds⟩, hset, fun _ => hcur⟩
    simpa [LooseDef.toks, kwE, Ast.tBraced, tRootOpItemsF, List.append_assoc] using d

end Apollo.Parse.Exact
