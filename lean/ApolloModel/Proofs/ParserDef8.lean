import ApolloModel.Proofs.ParserDef7
/-
C05 growth (type-system definitions), part 8: enum values, root operation types (with the known
finding), and the scalar / enum / input-object definitions.
-/
set_option linter.unusedSimpArgs false
namespace Apollo.Parse
open Apollo.Rowan hiding Str
open Apollo.Lex hiding Str

theorem acc_errAndPop {E : PState → Prop} {H : List Tok → Prop} {R : Unit → List Ast.Tok → Prop} : Acc E H errAndPop R := by
  refine ⟨good_errAndPop, ?_⟩
  intro s a s' w he _ hr hnd
  exfalso
  have hnds : ¬ Doomed s := fun dd => hnd ((good_errAndPop s a s' w hr).doom dd)
  exact hnd (valueErr_dooms true s s' w (eofEnd_nonempty s he hnds) (by simpa [valueErr] using hr))

theorem acc_absurd {α : Type} {E : PState → Prop} {H : List Tok → Prop} {m : PI α} {R : α → List Ast.Tok → Prop}
    (hg : Good m) (hH : ∀ q, H q → False) : Acc E H m R :=
  ⟨hg, fun s _ _ _ _ hq _ _ => absurd hq (hH (Toks s))⟩

/-- `enum_value`: a Name (the grammar also rejects `true`, `false`, `null`) -/
theorem acc_enumValue {E : PState → Prop} (hE : Early E) {H : List Tok → Prop} :
    Acc E H enumValue (fun _ x => ∃ nm, x = [.name nm]) := by
  unfold enumValue
  refine acc_withNodeAny hE _ ?_
  apply acc_peekToken
  intro o
  cases o with
  | none => exact acc_err
  | some t =>
    simp only []
    apply acc_ite
    · intro _
      apply acc_ite
      · intro _; exact acc_err' name good_name
      · intro _; exact acc_name.mono (fun _ _ => trivial) (fun _ _ h => h)
    · intro _; exact acc_err


def evBody (n : Nat) : PI Unit := optKind .stringValue description (enumValue >>= fun _ => optDirsEnd n)

theorem enumValueDefinition_eq (n : Nat) : enumValueDefinition n =
    peek >>= fun k => if isNameOrString k then withNode "ENUM_VALUE_DEFINITION" (evBody n) else pure () := rfl

theorem acc_enumValueDefinition {E : PState → Prop} (hE : Early E) (n : Nat) :
    Acc E (KindP isNameOrStringK) (enumValueDefinition n) (fun _ x => ∃ v : Ast.EnumValueDef, x = Ast.tEnumValueDef v) := by
  rw [enumValueDefinition_eq]
  apply acc_peek
  intro k
  apply acc_ite
  · intro _
    refine acc_withNode hE _ (fun q hq => kindP_sig _ nameOrString_sig q hq.1) ?_
    have hv : Acc E (fun _ => True) (enumValue >>= fun _ => optDirsEnd n)
        (fun _ x => ∃ nm ds, x = .name nm :: Ast.tDirectives ds) := by
      refine (acc_bind hE (acc_enumValue hE) (fun _ => acc_optDirsEnd n)).mono (fun _ h => h) ?_
      rintro _ x ⟨_, x1, x2, e, ⟨nm, h1⟩, ds, h2⟩
      exact ⟨nm, ds, by rw [e, h1, h2]; rfl⟩
    refine (acc_optDesc hE _ _ hv).mono (fun _ _ => trivial) ?_
    rintro _ x ⟨desc, x2, e, nm, ds, h2⟩
    exact ⟨⟨desc, nm, ds⟩, by rw [e, h2]; rfl⟩
  · intro hk
    refine acc_absurd (good_pure ()) ?_
    rintro q ⟨⟨t, hh, hp⟩, h2⟩
    rw [hh] at h2
    subst h2
    simp [isNameOrString, isNameOrStringK] at hk hp
    rcases hp with hp | hp <;> simp [hp] at hk

theorem enumValuesDefinition_eq (n : Nat) : enumValuesDefinition n = withNode "ENUM_VALUES_DEFINITION"
    (bracedBody "L_CURLY" isNameOrString isNameOrStringK (enumValueDefinition n) .rCurly "R_CURLY") := rfl

/-- `{ EnumValueDefinition+ }` -/
theorem acc_enumValuesDefinition (n : Nat) :
    Acc (fun _ => False) (KindP (· == .lCurly)) (enumValuesDefinition n)
      (fun _ x => ∃ vs : List Ast.EnumValueDef, vs ≠ [] ∧ x = Ast.tBraced (Ast.tEnumValueDefItems vs) vs.isEmpty) := by
  rw [enumValuesDefinition_eq]
  refine acc_withNode early_false _ (kindP_sig _ lCurly_sig) ?_
  refine (acc_braced .lCurly "L_CURLY" (.p .lCurly) .rCurly "R_CURLY" (.p .rCurly) isNameOrString isNameOrStringK
    (enumValueDefinition n) (fun x => ∃ v : Ast.EnumValueDef, x = Ast.tEnumValueDef v)
    (by intro t ht; simp [astOfV, ht]) rfl (by decide) (by intro t ht; simp [astOfV, ht]) rfl (by decide)
    isNameOrString_first (acc_enumValueDefinition early_atEof n)).mono (fun _ h => h) ?_
  rintro _ x ⟨items, hne, e, hall⟩
  obtain ⟨vs, hvs, hl⟩ := flatten_items _ Ast.tEnumValueDef Ast.tEnumValueDefItems rfl (fun _ _ => rfl) (fun _ h => h) items hall
  have hvne : vs ≠ [] := by
    intro h0; rw [h0] at hl; exact hne (List.eq_nil_of_length_eq_zero hl.symm)
  refine ⟨vs, hvne, ?_⟩
  have : vs.isEmpty = false := by cases vs with | nil => exact absurd rfl hvne | cons _ _ => rfl
  rw [e, hvs]; simp [Ast.tBraced, this]

theorem acc_nameOrErr {E : PState → Prop} {H : List Tok → Prop} : Acc E H nameOrErr (fun _ x => ∃ nm, x = [.name nm]) := by
  unfold nameOrErr
  exact acc_peekIf _ _ _ _ acc_name acc_err

/-- a trailing optional braced body: `if peek == '{' then body` -/
def optBody (body : PI Unit) : PI Unit := peek >>= fun k => if k == some .lCurly then body else pure ()

theorem acc_optBody {E : PState → Prop} {H : List Tok → Prop} (body : PI Unit) (L : List Ast.Tok → Prop)
    (hb : Acc (fun _ => False) (KindP (· == .lCurly)) body (fun _ => L)) :
    Acc E H (optBody body) (fun _ x => L x ∨ x = []) := by
  unfold optBody
  refine acc_ifKind .lCurly _ _ _ (hb.weakenE.mono (fun _ h => h) (fun _ _ h => Or.inl h)) ?_
  exact (acc_pure E _ ()).mono (fun _ _ => trivial) (fun _ _ h => Or.inr h.2)

theorem kw_hword (word : String) (h : NameData word) :
    ∀ t : Tok, t.data = word.toList → isIgnoredKind t.kind = false ∧ t.kind ≠ .eof ∧ astOfV t = some (.name word.toList) := by
  intro t ht
  have hk := h t ht
  refine ⟨by rw [hk]; rfl, by rw [hk]; decide, ?_⟩
  simp [astOfV, hk, ht]

/-- the common shape `Description? keyword? Name Directives? Body?` of the scalar / enum / input definitions -/
def defShape (word : String) (sk : SK) (_n : Nat) (tail : PI Unit) : PI Unit :=
  optKind .stringValue description (optKw word sk (nameOrErr >>= fun _ => tail))

theorem acc_defShape {E : PState → Prop} (hE : Early E) {H : List Tok → Prop} (word : String) (sk : SK) (hw : NameData word) (n : Nat)
    (tail : PI Unit) (L : List Ast.Tok → Prop) (ht : Acc E (fun _ => True) tail (fun _ => L)) :
    Acc E H (defShape word sk n tail)
      (fun _ x => ∃ desc seen nm x2, x = Ast.tDescription desc ++ kwPart word seen ++ .name nm :: x2 ∧ L x2) := by
  unfold defShape
  have h1 : Acc E (fun _ => True) (nameOrErr >>= fun _ => tail) (fun _ x => ∃ nm x2, x = .name nm :: x2 ∧ L x2) := by
    refine (acc_bind hE acc_nameOrErr (fun _ => ht)).mono (fun _ h => h) ?_
    rintro _ x ⟨_, x1, x2, e, ⟨nm, h1⟩, h2⟩
    exact ⟨nm, x2, by rw [e, h1]; rfl, h2⟩
  refine (acc_optDesc hE _ _ (acc_optKw hE word sk (kw_hword word hw) _ _ h1)).mono (fun _ _ => trivial) ?_
  rintro _ x ⟨desc, x2, e, seen, x3, e3, nm, x4, e4, h4⟩
  exact ⟨desc, seen, nm, x4, by rw [e, e3, e4]; simp, h4⟩

theorem scalarTypeDefinition_eq (n : Nat) : scalarTypeDefinition n =
    withNode "SCALAR_TYPE_DEFINITION" (defShape "scalar" "scalar_KW" n (optDirsEnd n)) := rfl

theorem acc_scalarTypeDefinition {H : List Tok → Prop} (hw : NameData "scalar") (n : Nat) :
    Acc (fun _ => False) H (scalarTypeDefinition n)
      (fun _ x => ∃ desc seen nm ds, x = Ast.tDescription desc ++ kwPart "scalar" seen ++ .name nm :: Ast.tDirectives ds) := by
  rw [scalarTypeDefinition_eq]
  refine acc_withNodeAny early_false _ ?_
  refine (acc_defShape early_false "scalar" _ hw n _ _ (acc_optDirsEnd n)).mono (fun _ _ => trivial) ?_
  rintro _ x ⟨desc, seen, nm, x2, e, ds, h2⟩
  exact ⟨desc, seen, nm, ds, by rw [e, h2]⟩

theorem enumTypeDefinition_eq (n : Nat) : enumTypeDefinition n =
    withNode "ENUM_TYPE_DEFINITION" (defShape "enum" "enum_KW" n
      (optKind .at (directives n true) (optBody (enumValuesDefinition n)))) := rfl

theorem acc_enumTypeDefinition {H : List Tok → Prop} (hw : NameData "enum") (n : Nat) :
    Acc (fun _ => False) H (enumTypeDefinition n)
      (fun _ x => ∃ desc seen nm ds vs, x = Ast.tDescription desc ++ kwPart "enum" seen ++ Ast.tEnumBody nm ds vs) := by
  rw [enumTypeDefinition_eq]
  refine acc_withNodeAny early_false _ ?_
  refine (acc_defShape early_false "enum" _ hw n _ _
    (acc_optDirs early_false n _ _ (acc_optBody _ _ (acc_enumValuesDefinition n)))).mono (fun _ _ => trivial) ?_
  rintro _ x ⟨desc, seen, nm, x2, e, ds, x3, e3, _, h3⟩
  rcases h3 with ⟨vs, _, h3⟩ | h3
  · exact ⟨desc, seen, nm, ds, vs, by rw [e, e3, h3]; simp [Ast.tEnumBody]⟩
  · exact ⟨desc, seen, nm, ds, [], by rw [e, e3, h3]; simp [Ast.tEnumBody, Ast.tBraced, Ast.tEnumValueDefItems]⟩

theorem inputObjectTypeDefinition_eq (n : Nat) : inputObjectTypeDefinition n =
    withNode "INPUT_OBJECT_TYPE_DEFINITION" (defShape "input" "input_KW" n
      (optKind .at (directives n true) (optBody (inputFieldsDefinition n)))) := rfl

theorem acc_inputObjectTypeDefinition {H : List Tok → Prop} (hw : NameData "input") (n : Nat) :
    Acc (fun _ => False) H (inputObjectTypeDefinition n)
      (fun _ x => ∃ desc seen nm ds fs, x = Ast.tDescription desc ++ kwPart "input" seen ++ Ast.tInputBody nm ds fs) := by
  rw [inputObjectTypeDefinition_eq]
  refine acc_withNodeAny early_false _ ?_
  refine (acc_defShape early_false "input" _ hw n _ _
    (acc_optDirs early_false n _ _ (acc_optBody _ _ (acc_inputFieldsDefinition n)))).mono (fun _ _ => trivial) ?_
  rintro _ x ⟨desc, seen, nm, x2, e, ds, x3, e3, _, h3⟩
  rcases h3 with ⟨vs, _, h3⟩ | h3
  · exact ⟨desc, seen, nm, ds, vs, by rw [e, e3, h3]; simp [Ast.tInputBody]⟩
  · exact ⟨desc, seen, nm, ds, [], by rw [e, e3, h3]; simp [Ast.tInputBody, Ast.tBraced, Ast.tIVDItems]⟩

end Apollo.Parse
