import ApolloModel.Model.Lexer
namespace Apollo.Lex

theorem eofItem_data (st : State) (kind : Kind) (acc : Str) : (eofItem st kind acc).data = acc := by
  cases st <;> rfl

/-- The driver never loses or duplicates a character, whatever the transition function does:
    item text followed by the unconsumed rest is what was consumed so far followed by the input. -/
theorem runD_concat : ∀ (src : Str) (st : State) (kind : Kind) (e : Bool) (acc : Str),
    (runD st kind e acc src).1.data ++ (runD st kind e acc src).2 = acc ++ src
  | [], st, kind, e, acc => by simp [runD, eofItem_data]
  | c :: rest, st, kind, e, acc => by
    unfold runD
    cases h : step st kind e acc c with
    | goto st' k' e' =>
      simp only []
      rw [runD_concat rest st' k' e' (acc ++ [c])]
      simp
    | incl o => cases o <;> simp [Out.mk, Item.data]
    | excl o => cases o <;> simp [Out.mk, Item.data]

/-- an item that has consumed at least one character is non-empty and leaves no more than it got -/
theorem runD_progress : ∀ (src : Str) (st : State) (kind : Kind) (e : Bool) (acc : Str), acc ≠ [] →
    (runD st kind e acc src).1.data ≠ [] ∧ (runD st kind e acc src).2.length ≤ src.length
  | [], st, kind, e, acc, h => by simp [runD, eofItem_data, h]
  | c :: rest, st, kind, e, acc, h => by
    unfold runD
    cases hs : step st kind e acc c with
    | goto st' k' e' =>
      simp only []
      have := runD_progress rest st' k' e' (acc ++ [c]) (by simp)
      exact ⟨this.1, by simp only [List.length_cons]; omega⟩
    | incl o => cases o <;> simp [Out.mk, Item.data]
    | excl o => cases o <;> simp [Out.mk, Item.data, h]

/-- in the start state the first character is always consumed (never `excl`) -/
theorem step_start_not_excl (kind : Kind) (e : Bool) (acc : Str) (c : Char) (o : Out) :
    step .start kind e acc c ≠ .excl o := by
  unfold step
  simp only []
  split
  · simp
  · repeat' split
    all_goals simp

theorem advance_nil : advance [] = (.tok .eof [], []) := rfl

/-- every call of `advance` on a non-empty input yields a non-empty item and strictly shrinks the input -/
theorem advance_progress (c : Char) (rest : Str) :
    (advance (c :: rest)).1.data ≠ [] ∧ (advance (c :: rest)).2.length < (c :: rest).length := by
  unfold advance runD
  cases hs : step .start .eof false [] c with
  | goto st' k' e' =>
    simp only []
    have := runD_progress rest st' k' e' ([] ++ [c]) (by simp)
    exact ⟨this.1, by simp only [List.length_cons]; omega⟩
  | incl o => cases o <;> simp [Out.mk, Item.data]
  | excl o => exact absurd hs (step_start_not_excl _ _ _ _ _)

theorem advance_concat (src : Str) : (advance src).1.data ++ (advance src).2 = src := by
  simpa [advance] using runD_concat src .start .eof false []

def texts (items : List Item) : Str := items.flatMap Item.data

theorem lexAux_concat : ∀ (fuel : Nat) (count : Nat) (src : Str), src.length < fuel →
    texts (lexAux fuel none count src) = src ∧ (lexAux fuel none count src).getLast? = some (.tok .eof [])
  | 0, _, _, h => by omega
  | fuel + 1, count, [], _ => by simp [lexAux, texts, Item.data]
  | fuel + 1, count, c :: rest, h => by
    have hp := advance_progress c rest
    have hc := advance_concat (c :: rest)
    have ih := lexAux_concat fuel (count + 1) (advance (c :: rest)).2 (by simp only [List.length_cons] at h hp; omega)
    simp only [lexAux, Bool.false_eq_true, if_false]
    refine ⟨?_, ?_⟩
    · simp only [texts, List.flatMap_cons] at ih ⊢
      rw [ih.1, hc]
    · rw [List.getLast?_cons]
      simp [ih.2]

/-- Lexing without a token limit: the items' texts, concatenated in order, reproduce the input, and
    the stream ends with the EOF token (so the fuel of the model always suffices: termination). -/
theorem lex_concat (src : Str) : texts (lex none src) = src ∧ (lex none src).getLast? = some (.tok .eof []) :=
  lexAux_concat (src.length + 1) 0 src (by omega)

end Apollo.Lex
