import ApolloModel.Proofs.ExecRules3
/-
C17, document level, the rules of the validation walk itself (`Standalone.walkSels` / `enterFrag`, schema present):
WHERE `validate_field` (§5.3.3 MissingSubselection, §5.4 arguments), `validate_fragment_spread` (§5.5.2.1),
`validate_inline_fragment` and `validate_fragment_definition` (§5.5.1.3, §5.5.2.2) are applied.  A `Site` is one
such call; `Site.diags` is what that call reports by itself.
-/
set_option linter.unusedSimpArgs false
set_option linter.unusedVariables false
namespace Apollo.Standalone.Walk
open Apollo Apollo.Standalone

inductive Site where
  /-- a field `name` in a selection set of type `ty`, `subNil`: written without sub-selection -/
  | field (ty : Option Name) (name : Name) (dirs : List Dir) (args : List Arg) (subNil : Bool)
  | spread (f : Name) (dirs : List Dir)
  | inline (tc : Option Name) (dirs : List Dir)
  | fragDef (f : Frag)

def inlineTcd (sc : Schema) : Option Name → List Diag
  | some t => if sc.kind t == some .composite then [] else [.invalidFragmentTarget]
  | none => []
def fragTcd (sc : Schema) (f : Frag) : List Diag := if sc.kind f.tc == some .composite then [] else [.invalidFragmentTarget]
def fragCyc (doc : BuiltDoc) (f : Frag) : List Diag := if f.name ∈ reach doc f.sels then [.recursiveFragmentDefinition] else []

def Site.diags (p : Params) (sc : Schema) (doc : BuiltDoc) : Site → List Diag
  | .field ty name dirs args subNil =>
    dirDiags p (some sc) .field dirs ++ uniqueArgs [] args ++
      (match ty with
       | some t =>
         (match sc.field t name with
          | some fd =>
            undefinedArgs fd.args args ++ requiredArgs fd.args args ++
              (if subNil && sc.kind fd.ty == some .composite then [.missingSubselection] else [])
          | none => [])
       | none => [])
  | .spread f dirs =>
    dirDiags p (some sc) .fragmentSpread dirs ++ (match doc.findFrag f with | some _ => [] | none => [.undefinedFragment])
  | .inline tc dirs => dirDiags p (some sc) .inlineFragment dirs ++ inlineTcd sc tc
  | .fragDef f => dirDiags p (some sc) .fragmentDefinition f.dirs ++ fragTcd sc f ++ fragCyc doc f

/-- the type under which the body of an inline fragment is walked -/
def inlineTy (ty : Option Name) : Option Name → Option Name
  | some t => some t
  | none => ty

def localSites (sc : Schema) : Option Name → Sels → List Site
  | _, .nil => []
  | ty, .field name dirs args sub rest =>
    [.field ty name dirs args sub.isNil] ++
    (match ty with
     | some t =>
       (match sc.field t name with
        | some fd => if sub.isNil && sc.kind fd.ty == some .composite then [] else localSites sc (some fd.ty) sub
        | none => [])
     | none => localSites sc none sub) ++ localSites sc ty rest
  | ty, .spread f dirs rest => [.spread f dirs] ++ localSites sc ty rest
  | ty, .inline tc dirs sub rest =>
    [.inline tc dirs] ++ (if (inlineTcd sc tc).isEmpty then localSites sc (inlineTy ty tc) sub else []) ++ localSites sc ty rest

def localSpreads (sc : Schema) : Option Name → Sels → List Name
  | _, .nil => []
  | ty, .field name _ _ sub rest =>
    (match ty with
     | some t =>
       (match sc.field t name with
        | some fd => if sub.isNil && sc.kind fd.ty == some .composite then [] else localSpreads sc (some fd.ty) sub
        | none => [])
     | none => localSpreads sc none sub) ++ localSpreads sc ty rest
  | ty, .spread f _ rest => [f] ++ localSpreads sc ty rest
  | ty, .inline tc _ sub rest =>
    (if (inlineTcd sc tc).isEmpty then localSpreads sc (inlineTy ty tc) sub else []) ++ localSpreads sc ty rest

/-- the body of an inline fragment: walked under `inlineTy` unless the type condition was reported -/
def inlineStep (p : Params) (sc : Schema) (doc : BuiltDoc) (e : Frag → List Name → List Diag × List Name)
    (ty tc : Option Name) (sub : Sels) (V : List Name) : List Diag × List Name :=
  if (inlineTcd sc tc).isEmpty then walkSels p (some sc) doc e (inlineTy ty tc) sub V else ([], V)

theorem walk_inline_eq (p : Params) (sc : Schema) (doc : BuiltDoc) (e : Frag → List Name → List Diag × List Name)
    (ty tc : Option Name) (dirs : List Dir) (sub rest : Sels) (V : List Name) :
    walkSels p (some sc) doc e ty (.inline tc dirs sub rest) V =
      (dirDiags p (some sc) .inlineFragment dirs ++ inlineTcd sc tc ++ (inlineStep p sc doc e ty tc sub V).1 ++
          (walkSels p (some sc) doc e ty rest (inlineStep p sc doc e ty tc sub V).2).1,
        (walkSels p (some sc) doc e ty rest (inlineStep p sc doc e ty tc sub V).2).2) := by
  cases tc <;> simp only [walkSels, inlineTcd, inlineTy, inlineStep] <;> rfl

def Origin (p : Params) (sc : Schema) (doc : BuiltDoc) (e : Frag → List Name → List Diag × List Name)
    (ty : Option Name) (t : Sels) (d : Diag) : Prop :=
  (∃ site ∈ localSites sc ty t, d ∈ site.diags p sc doc) ∨
    (∃ f ∈ localSpreads sc ty t, ∃ fr W, doc.findFrag f = some fr ∧ d ∈ (e fr W).1)

theorem walk_diag_origin (p : Params) (sc : Schema) (doc : BuiltDoc) (e : Frag → List Name → List Diag × List Name) :
    ∀ (t : Sels) (ty : Option Name) (V : List Name) (d : Diag),
      d ∈ (walkSels p (some sc) doc e ty t V).1 → Origin p sc doc e ty t d := by
  intro t
  induction t with
  | nil => intro ty V d h; simp [walkSels] at h
  | field name dirs args sub rest ihs ihr =>
    intro ty V d h
    simp only [walkSels, List.mem_append] at h
    rcases h with ((h | h) | h) | h
    · exact .inl ⟨.field ty name dirs args sub.isNil, by simp [localSites], by simp [Site.diags, h]⟩
    · exact .inl ⟨.field ty name dirs args sub.isNil, by simp [localSites], by simp [Site.diags, h]⟩
    · cases ty with
      | none =>
        simp only at h
        rcases ihs none V d h with ⟨site, hs, hd⟩ | ⟨f, hf, fr, W, hfr, hd⟩
        · exact .inl ⟨site, by simp [localSites, hs], hd⟩
        · exact .inr ⟨f, by simp [localSpreads, hf], fr, W, hfr, hd⟩
      | some t =>
        simp only at h
        cases hfd : sc.field t name with
        | none => simp [hfd] at h
        | some fd =>
          simp only [hfd] at h
          by_cases hc : (sub.isNil && sc.kind fd.ty == some Kind.composite) = true
          · simp only [hc, if_true] at h
            refine .inl ⟨.field (some t) name dirs args sub.isNil, by simp [localSites], ?_⟩
            simp only [Site.diags, hfd, hc, if_true, List.mem_append] at h ⊢
            exact .inr h
          · simp only [hc, Bool.false_eq_true, if_false, List.mem_append] at h
            rcases h with h | h
            · refine .inl ⟨.field (some t) name dirs args sub.isNil, by simp [localSites], ?_⟩
              simp only [Site.diags, hfd, hc, Bool.false_eq_true, if_false, List.append_nil, List.mem_append] at h ⊢
              exact .inr h
            · rcases ihs _ V d h with ⟨site, hs, hd⟩ | ⟨f, hf, fr, W, hfr, hd⟩
              · exact .inl ⟨site, by simp [localSites, hfd, hc, hs], hd⟩
              · exact .inr ⟨f, by simp [localSpreads, hfd, hc, hf], fr, W, hfr, hd⟩
    · rcases ihr ty _ d h with ⟨site, hs, hd⟩ | ⟨f, hf, fr, W, hfr, hd⟩
      · exact .inl ⟨site, by simp [localSites, hs], hd⟩
      · exact .inr ⟨f, by simp [localSpreads, hf], fr, W, hfr, hd⟩
  | spread f dirs rest ihr =>
    intro ty V d h
    simp only [walkSels, List.mem_append] at h
    rcases h with (h | h) | h
    · exact .inl ⟨.spread f dirs, by simp [localSites], by simp [Site.diags, h]⟩
    · cases hfr : doc.findFrag f with
      | none =>
        simp only [hfr] at h
        exact .inl ⟨.spread f dirs, by simp [localSites], by simp [Site.diags, hfr, h]⟩
      | some fr =>
        simp only [hfr] at h
        by_cases hv : f ∈ V
        · simp [hv] at h
        · simp only [hv, if_false] at h
          exact .inr ⟨f, by simp [localSpreads], fr, f :: V, hfr, h⟩
    · rcases ihr ty _ d h with ⟨site, hs, hd⟩ | ⟨g, hg, fr, W, hfr, hd⟩
      · exact .inl ⟨site, by simp [localSites, hs], hd⟩
      · exact .inr ⟨g, by simp [localSpreads, hg], fr, W, hfr, hd⟩
  | inline tc dirs sub rest ihs ihr =>
    intro ty V d h
    rw [walk_inline_eq] at h
    simp only [List.mem_append, inlineStep] at h
    rcases h with ((h | h) | h) | h
    · exact .inl ⟨.inline tc dirs, by simp [localSites], by simp [Site.diags, h]⟩
    · exact .inl ⟨.inline tc dirs, by simp [localSites], by simp [Site.diags, h]⟩
    · by_cases he : (inlineTcd sc tc).isEmpty = true
      · simp only [he, if_true] at h
        rcases ihs _ V d h with ⟨site, hs, hd⟩ | ⟨f, hf, fr, W, hfr, hd⟩
        · exact .inl ⟨site, by simp [localSites, he, hs], hd⟩
        · exact .inr ⟨f, by simp [localSpreads, he, hf], fr, W, hfr, hd⟩
      · simp [he] at h
    · rcases ihr ty _ d h with ⟨site, hs, hd⟩ | ⟨g, hg, fr, W, hfr, hd⟩
      · exact .inl ⟨site, by simp [localSites, hs], hd⟩
      · exact .inr ⟨g, by simp [localSpreads, hg], fr, W, hfr, hd⟩

end Apollo.Standalone.Walk
