import ApolloModel.Proofs.ParserTreeDef13
/-
C08 growth (pipeline), injectivity: the tokens of an accepted loose type-system definition determine the definition.
The reference parser `pDefinition` is run on `l.toks`: it accepts a leading `&` / `|` (and returns `looseConv l`), it
fails on a root operation type without its named type; on the printer's tokens of a well-formed `d` it returns `d`
(`Ast.definition_roundtrip`).  Hence `l.toks = tDefinition false d` forces `looseConv l = d`.
-/
set_option linter.unusedSimpArgs false
set_option linter.unusedVariables false
namespace Apollo.Parse
open Apollo.FromCst (looseConv looseConv_strict rootsConv)

/-! ### separated lists with an optional leading separator -/

theorem sepLead_roundtrip (sep : Ast.P) (lead : Bool) (first : Str) (ns : List Str) (f : Nat) (rest : List Ast.Tok)
    (hs : ns.length ≤ f) (hr : rest.head? ≠ some (.p sep)) :
    Ast.pSepList sep f (tSepLead sep lead first ns ++ rest) = some (first :: ns, rest) := by
  have := Ast.sepNames_roundtrip sep ns f rest hs hr
  cases lead <;> simp [tSepLead, Ast.pSepList, this]

theorem implementsLoose_roundtrip (impl : SepC) (f : Nat) (rest : List Ast.Tok) (hs : (sepNames impl).length ≤ f)
    (hr : rest.head? ≠ some (.p .amp)) (hi : rest.head? ≠ some (.name Ast.sImplements)) :
    Ast.pImplements f (tSepOpt [.name Ast.sImplements] .amp impl ++ rest) = some (sepNames impl, rest) := by
  cases impl with
  | none => simpa [tSepOpt, sepNames, Ast.tSepList] using Ast.implements_roundtrip [] f rest (by simp) hr hi
  | some v =>
    obtain ⟨lead, first, ns⟩ := v
    have := sepLead_roundtrip .amp lead first ns f rest (by simp [sepNames] at hs; omega) hr
    simp only [tSepOpt, sepNames, List.cons_append, List.nil_append, List.append_assoc] at this ⊢
    simp [Ast.pImplements, this]

theorem unionMembersLoose_roundtrip (ms : SepC) (f : Nat) (rest : List Ast.Tok) (hs : (sepNames ms).length ≤ f)
    (hr : rest.head? ≠ some (.p .pipe)) (he : rest.head? ≠ some (.p .eq)) :
    Ast.pUnionMembers f (tSepOpt [.p .eq] .pipe ms ++ rest) = some (sepNames ms, rest) := by
  cases ms with
  | none => simpa [tSepOpt, sepNames, Ast.tSepList] using Ast.unionMembers_roundtrip [] f rest (by simp) hr he
  | some v =>
    obtain ⟨lead, first, ns⟩ := v
    have := sepLead_roundtrip .pipe lead first ns f rest (by simp [sepNames] at hs; omega) hr
    simp only [tSepOpt, sepNames, List.cons_append, List.nil_append, List.append_assoc] at this ⊢
    simp [Ast.pUnionMembers, this]

/-! ### bodies -/

theorem objectLikeLoose_roundtrip (nm : Str) (impl : SepC) (ds : List Ast.Directive) (fs : List Ast.FieldDef) (f : Nat)
    (h1 : Ast.wfDirs ds = true) (h2 : Ast.wfFieldDefs fs = true)
    (hs : (sepNames impl).length + Ast.szDirs ds + Ast.szFieldDefs fs ≤ f) :
    Ast.pObjectTypeLike f (objectLikeToks nm impl ds fs) = some ((nm, sepNames impl, ds, fs), []) := by
  have a := implementsLoose_roundtrip impl f (Ast.tDirectives ds ++ (Ast.tBraced (Ast.tFieldDefItems fs) fs.isEmpty ++ []))
    (by omega)
    (by
      intro e
      rcases Ast.head_tDirectives _ _ _ e with h | e
      · cases h
      · rcases Ast.head_tBraced _ _ _ _ e with h | e
        · cases h
        · cases e)
    (by
      intro e
      rcases Ast.head_tDirectives _ _ _ e with h | e
      · cases h
      · rcases Ast.head_tBraced _ _ _ _ e with h | e
        · cases h
        · cases e)
  have b := Ast.directives_roundtrip ds f (Ast.tBraced (Ast.tFieldDefItems fs) fs.isEmpty ++ []) h1 (by omega)
    (by
      constructor <;> intro e <;> rcases Ast.head_tBraced _ _ _ _ e with h | e
      · cases h
      · cases e
      · cases h
      · cases e)
  have c := Ast.fieldsDefinition_roundtrip fs f [] h2 (by omega) (by simp)
  simp only [objectLikeToks, List.cons_append, List.append_assoc, List.append_nil] at a b c ⊢
  simp [Ast.pObjectTypeLike, a, b, c]

theorem unionLoose_roundtrip (nm : Str) (ds : List Ast.Directive) (ms : SepC) (f : Nat)
    (h1 : Ast.wfDirs ds = true) (hs : Ast.szDirs ds + (sepNames ms).length ≤ f) :
    Ast.pUnionBody f (.name nm :: Ast.tDirectives ds ++ tSepOpt [.p .eq] .pipe ms) = some ((nm, ds, sepNames ms), []) := by
  have b := Ast.directives_roundtrip ds f (tSepOpt [.p .eq] .pipe ms ++ []) h1 (by omega)
    (by
      cases ms with
      | none => simp [tSepOpt, Ast.dirFollow]
      | some v => obtain ⟨lead, first, ns⟩ := v; simp [tSepOpt, Ast.dirFollow])
  have c := unionMembersLoose_roundtrip ms f [] (by omega) (by simp) (by simp)
  simp only [List.cons_append, List.append_assoc, List.append_nil] at b c ⊢
  simp [Ast.pUnionBody, b, c]

theorem directiveLoose_roundtrip (desc : Option Str) (nm : Str) (args : List Ast.InputValueDef) (rep lead : Bool)
    (first : Str) (rest : List Str) (f : Nat) (h1 : Ast.wfIVDs args = true) (hs : Ast.szIVDs args + (first :: rest).length ≤ f) :
    Ast.pTypeSystemRest f desc "directive".toList
      (.p .at :: .name nm :: Ast.tArgsDef args ++ kwPart "repeatable" rep ++ .name Ast.sOn :: tSepLead .pipe lead first rest)
      = some (.directiveDef desc nm args rep (first :: rest), []) := by
  have a := Ast.argumentsDefinition_roundtrip args f
    (kwPart "repeatable" rep ++ .name Ast.sOn :: tSepLead .pipe lead first rest) h1 (by omega)
    (by cases rep <;> simp [Ast.notLParen, kwPart])
  have c := sepLead_roundtrip .pipe lead first rest f [] (by simp at hs; omega) (by simp)
  have hro : Ast.sOn ≠ Ast.sRepeatable := by decide
  have hrep : "repeatable".toList = Ast.sRepeatable := rfl
  cases rep with
  | true =>
    simp only [kwPart, if_true, List.cons_append, List.nil_append, List.append_assoc, List.append_nil, hrep] at a c ⊢
    simp [Ast.pTypeSystemRest, a, c]
  | false =>
    simp only [kwPart, Bool.false_eq_true, if_false, List.cons_append, List.nil_append, List.append_assoc, List.append_nil] at a c ⊢
    simp [Ast.pTypeSystemRest, a, c, hro]

/-! ### a root operation type without its named type is not read -/

theorem pRootOpsTail_colon (f : Nat) (X : List Ast.Tok) : Ast.pRootOpsTail f (.p .colon :: X) = none := by
  cases f <;> simp [Ast.pRootOpsTail]

theorem rootsTail_fail : ∀ (roots : List (Ast.OpType × Option Str)) (f : Nat) (rest : List Ast.Tok), fullRoots roots = none →
    Ast.pRootOpsTail f (tRootOpItemsF roots ++ .p .rCurly :: rest) = none
  | [], _, _, h => by simp [fullRoots] at h
  | _, 0, _, _ => by simp [Ast.pRootOpsTail]
  | (op, some nm) :: r, f + 1, rest, h => by
    have hr : fullRoots r = none := by
      cases hh : fullRoots r with
      | none => rfl
      | some x => simp [fullRoots, hh] at h
    have ih := rootsTail_fail r f rest hr
    simp only [tRootOpItemsF, List.map_cons, List.flatten_cons, tRootOpF, List.cons_append, List.nil_append,
      List.append_assoc] at ih ⊢
    simp [Ast.pRootOpsTail, Ast.opTypeOf_name, ih]
  | (op, none) :: r, f + 1, rest, _ => by
    cases r with
    | nil => simp [tRootOpItemsF, tRootOpF, Ast.pRootOpsTail]
    | cons r0 rs =>
      obtain ⟨op', o⟩ := r0
      simp only [tRootOpItemsF, List.map_cons, List.flatten_cons, tRootOpF, List.cons_append, List.nil_append,
        List.append_assoc]
      simp [Ast.pRootOpsTail, Ast.opTypeOf_name, pRootOpsTail_colon]

theorem fullRoots_nil_ne {roots : List (Ast.OpType × Option Str)} (h : fullRoots roots = none) : roots ≠ [] := by
  rintro rfl; simp [fullRoots] at h

/-! ### the reference parser on the tokens of a loose definition -/

theorem strict_parse (l : LooseDef) (d : Ast.Definition) (h : l.strict = some d) (hw : l.wf = true) (f : Nat)
    (hf : Ast.szDefinition (looseConv l) ≤ f) : Ast.pDefinition f l.toks = some (looseConv l, []) := by
  rw [looseConv_strict l d h] at hf ⊢
  rw [LooseDef.toks_strict l d h]
  have := Ast.definition_roundtrip d f [] (LooseDef.wf_strict l d h hw) hf rfl
  simpa using this

/-- **the reference parser on the tokens of an accepted loose definition**: it returns `looseConv l` — a leading
    separator is accepted by `pSepList` and not represented — or fails (a root operation type without its named type) -/
theorem loose_parse (l : LooseDef) (hw : l.wf = true) (f : Nat) (hf : Ast.szDefinition (looseConv l) ≤ f) :
    Ast.pDefinition f l.toks = some (looseConv l, []) ∨ Ast.pDefinition f l.toks = none := by
  cases l with
  | scalar desc nm ds => exact Or.inl (strict_parse _ _ rfl hw f hf)
  | enum desc nm ds vs => exact Or.inl (strict_parse _ _ rfl hw f hf)
  | input desc nm ds fs => exact Or.inl (strict_parse _ _ rfl hw f hf)
  | scalarExt nm ds => exact Or.inl (strict_parse _ _ rfl hw f hf)
  | enumExt nm ds vs => exact Or.inl (strict_parse _ _ rfl hw f hf)
  | inputExt nm ds fs => exact Or.inl (strict_parse _ _ rfl hw f hf)
  | object desc nm impl ds fs =>
    left
    simp only [LooseDef.wf, Bool.and_eq_true] at hw
    simp only [looseConv, Ast.szDefinition] at hf
    have b := objectLikeLoose_roundtrip nm impl ds fs f hw.1 hw.2 (by omega)
    simp only [LooseDef.toks, kwPart_true, looseConv, List.append_assoc, List.cons_append, List.nil_append]
    rw [Ast.typeSystem_dispatch f desc _ _ (by simp [Ast.opTypeOf]) (by simp) (by simp)]
    simp [Ast.pTypeSystemRest, b]
  | interface desc nm impl ds fs =>
    left
    simp only [LooseDef.wf, Bool.and_eq_true] at hw
    simp only [looseConv, Ast.szDefinition] at hf
    have b := objectLikeLoose_roundtrip nm impl ds fs f hw.1 hw.2 (by omega)
    simp only [LooseDef.toks, kwPart_true, looseConv, List.append_assoc, List.cons_append, List.nil_append]
    rw [Ast.typeSystem_dispatch f desc _ _ (by simp [Ast.opTypeOf]) (by simp) (by simp)]
    simp [Ast.pTypeSystemRest, b]
  | union desc nm ds ms =>
    left
    simp only [LooseDef.wf] at hw
    simp only [looseConv, Ast.szDefinition] at hf
    have b := unionLoose_roundtrip nm ds ms f hw (by omega)
    simp only [LooseDef.toks, unionToks, kwPart_true, looseConv, List.append_assoc, List.cons_append, List.nil_append] at b ⊢
    rw [Ast.typeSystem_dispatch f desc _ _ (by simp [Ast.opTypeOf]) (by simp) (by simp)]
    simp [Ast.pTypeSystemRest, b]
  | directive desc nm args rep lead first rest =>
    left
    simp only [LooseDef.wf] at hw
    simp only [looseConv, Ast.szDefinition] at hf
    have b := directiveLoose_roundtrip desc nm args rep lead first rest f hw (by simp at hf ⊢; omega)
    simp only [LooseDef.toks, directiveToks, kwPart_true, looseConv, List.append_assoc, List.cons_append, List.nil_append] at b ⊢
    rw [Ast.typeSystem_dispatch f desc _ _ (by simp [Ast.opTypeOf]) (by simp) (by simp)]
    exact b
  | objectExt nm impl ds fs =>
    left
    simp only [LooseDef.wf, Bool.and_eq_true] at hw
    simp only [looseConv, Ast.szDefinition] at hf
    have b := objectLikeLoose_roundtrip nm impl ds fs f hw.1 hw.2 (by omega)
    simp only [LooseDef.toks, kwE, looseConv, List.append_assoc, List.cons_append, List.nil_append]
    rw [Ast.extension_dispatch]
    simp [Ast.pExtensionRest, b]
  | interfaceExt nm impl ds fs =>
    left
    simp only [LooseDef.wf, Bool.and_eq_true] at hw
    simp only [looseConv, Ast.szDefinition] at hf
    have b := objectLikeLoose_roundtrip nm impl ds fs f hw.1 hw.2 (by omega)
    simp only [LooseDef.toks, kwE, looseConv, List.append_assoc, List.cons_append, List.nil_append]
    rw [Ast.extension_dispatch]
    simp [Ast.pExtensionRest, b]
  | unionExt nm ds ms =>
    left
    simp only [LooseDef.wf] at hw
    simp only [looseConv, Ast.szDefinition] at hf
    have b := unionLoose_roundtrip nm ds ms f hw (by omega)
    simp only [LooseDef.toks, kwE, looseConv, List.append_assoc, List.cons_append, List.nil_append] at b ⊢
    rw [Ast.extension_dispatch]
    simp [Ast.pExtensionRest, b]
  | schema desc ds roots =>
    cases hr : fullRoots roots with
    | some rs' => exact Or.inl (strict_parse _ (.schemaDef desc ds rs') (by simp [LooseDef.strict, hr]) hw f hf)
    | none =>
      right
      simp only [LooseDef.wf, Bool.and_eq_true] at hw
      simp only [looseConv, Ast.szDefinition] at hf
      have b := Ast.directives_roundtrip ds f (.p .lCurly :: tRootOpItemsF roots ++ [.p .rCurly]) hw.1 (by omega)
        (by simp [Ast.dirFollow])
      have c := rootsTail_fail roots f [] hr
      simp only [LooseDef.toks, schemaToks, kwPart_true, List.append_assoc, List.cons_append, List.nil_append] at b c ⊢
      rw [Ast.typeSystem_dispatch f desc _ _ (by simp [Ast.opTypeOf]) (by simp) (by simp)]
      simp [Ast.pTypeSystemRest, b, Ast.pRootOps, c]
  | schemaExt ds roots =>
    cases hr : fullRoots roots with
    | some rs' => exact Or.inl (strict_parse _ (.schemaExt ds rs') (by simp [LooseDef.strict, hr]) hw f hf)
    | none =>
      right
      simp only [LooseDef.wf] at hw
      simp only [looseConv, Ast.szDefinition] at hf
      have hne := fullRoots_nil_ne hr
      have hemp : roots.isEmpty = false := by cases roots with | nil => exact absurd rfl hne | cons _ _ => rfl
      have b := Ast.directives_roundtrip ds f (.p .lCurly :: tRootOpItemsF roots ++ [.p .rCurly]) hw (by omega)
        (by simp [Ast.dirFollow])
      have c := rootsTail_fail roots f [] hr
      simp only [LooseDef.toks, kwE, Ast.tBraced, hemp, Bool.false_eq_true, if_false, List.append_assoc, List.cons_append,
        List.nil_append] at b c ⊢
      rw [Ast.extension_dispatch]
      simp [Ast.pExtensionRest, b, Ast.pRootOps, c]

/-- **the tokens of an accepted loose definition determine the definition**: if the tokens consumed for `l` are the
    tokens the serializer writes for a well-formed `d`, then what `from_cst` makes of `l` is `d` -/
theorem loose_tokens_determine_definition (l : LooseDef) (d : Ast.Definition) (hw : l.wf = true) (hd : Ast.wfDefinition d = true)
    (h : l.toks = Ast.tDefinition false d) : looseConv l = d := by
  have h1 := loose_parse l hw (Ast.szDefinition (looseConv l) + Ast.szDefinition d) (by omega)
  have h2 := Ast.definition_roundtrip d (Ast.szDefinition (looseConv l) + Ast.szDefinition d) [] hd (by omega) rfl
  rw [List.append_nil, ← h] at h2
  rcases h1 with h1 | h1
  · rw [h1] at h2
    injection h2 with h2
    injection h2
  · rw [h1] at h2
    cases h2

end Apollo.Parse
