import ApolloModel.Proofs.ParserExactC15
/-
EXACT-BUDGET COPY of ParserComplete16 (namespace Apollo.Parse.Exact, exact `vdepth`).
C05 / C07 growth (completeness), part 16: the brace-less field set may be preceded by ignored tokens (the braced
one may not: `field_set` looks for `{` on the raw current token); final form of the entry-point theorem.
-/
set_option linter.unusedSimpArgs false
namespace Apollo.Parse.Exact
open Apollo.Rowan hiding Str
open Apollo.Lex hiding Str

theorem ign_kind_ne_lCurly {t : Tok} (h : isIgnoredKind t.kind = true) : (some t.kind == some Kind.lCurly) = false := by
  cases hk : t.kind <;> simp [hk, isIgnoredKind] at h ⊢

/-- brace-less field set with ignored tokens in front -/
theorem fieldSet_bare_lead (n : Nat) (s s' : PState) (i0 c : List Tok) (x : List Ast.Tok) (q0 : Tok) (rest : List Tok)
    (w : TW s) (hi0 : Ign i0) (hb : 1 ≤ s.recLimit - s.recCur) (hl : LSels (s.recLimit - s.recCur - 1) x) (hs : Spells c x)
    (ht : Toks s = i0 ++ (c ++ q0 :: rest)) (hq : Sigf q0) (hf : q0.kind = .rCurly ∨ q0.kind = .eof)
    (h : (fieldSet n).run s = .ok () s') : Eat s s' (i0 ++ c) ∧ Toks s' = q0 :: rest := by
  obtain ⟨ss, hne, rfl, hfit⟩ := hl
  obtain ⟨a, x', e, hka⟩ := tSels_head ss hne
  obtain ⟨t, tl1, hc, hta⟩ := spells_head (by rw [e] at hs; exact hs)
  have hst : Sigf t := sigf_of_astOfV hta
  -- the head of the whole queue is not `{`
  obtain ⟨hd, tl, hht, hnl⟩ : ∃ hd tl, i0 ++ (c ++ q0 :: rest) = hd :: tl ∧ (some hd.kind == some Kind.lCurly) = false := by
    cases i0 with
    | nil =>
      refine ⟨t, tl1 ++ q0 :: rest, by rw [hc]; rfl, ?_⟩
      rw [kind_of_astOfV hta]
      rcases hka with h0 | h0 <;> rw [h0] <;> rfl
    | cons ih it => exact ⟨ih, it ++ (c ++ q0 :: rest), rfl, ign_kind_ne_lCurly (hi0 ih (by simp))⟩
  unfold fieldSet at h
  obtain ⟨ko, sP, hp, h2⟩ := bind_dec peek _ s s' () h
  obtain ⟨rfl, eP, htP, _⟩ := peek_head s sP ko hd tl w (by rw [ht, hht]) hp
  simp only [hnl, Bool.false_eq_true, if_false] at h2
  obtain ⟨s0, s2, o0, hr0, o2⟩ := withNode_dec "SELECTION_SET" _ sP s' () h2
  obtain ⟨_, s1, hsk, hbody⟩ := bind_dec skipIgnored _ s0 s2 () hr0
  obtain ⟨e1, t1, _⟩ := skip_exact s0 s1 i0 t (tl1 ++ q0 :: rest) (o0.w eP.w) hsk (by rw [o0.toks, htP, ← hht, hc]; simp) hi0 hst
  have e01 : Eat s s1 i0 := by simpa using (eP.trans (Eat.ofObsEq o0 eP.w)).trans e1
  have hb1 : s1.recLimit - s1.recCur = s.recLimit - s.recCur := by rw [e01.recLimit, e01.recCur]
  have hrec := cmp_withRec (Hk := fun _ => True) limitErr (selection n)
    ((sel_all_comp n).2.1) (L := fun b x => 1 ≤ b ∧ LSels (b - 1) x) (fun b x h => h)
  obtain ⟨eB, tB, _⟩ := hrec s1 s2 () c _ q0 rest e01.w hbody (by rw [hb1]; exact ⟨hb, ss, hne, rfl, hfit⟩) hs
    (by rw [t1, hc]; simp) hq hf trivial
  exact ⟨by simpa using (e01.trans eB).trans (Eat.ofObsEq o2 eB.w), by rw [o2.toks]; exact tB⟩

/-- **acceptance is complete** for `Parser::parse_selection_set`, final form: a braced selection set must start the
    input; a brace-less field set may be preceded by ignored tokens -/
theorem parseFieldSet_complete_full (rl : Nat) (src : Str) (ss : Ast.Sels) (ts : List Tok) (e : Tok)
    (hclean : LexClean src) (hsig : sig (srcToks src) = ts ++ [e]) (he : e.kind = .eof)
    (hne : ss ≠ Ast.Sels.nil) (hb : 1 ≤ rl) (hfit : fitSels ss (rl - 1))
    (hx : (TokIs ts (.p .lCurly :: Ast.tSels ss ++ [.p .rCurly]) ∧ HeadSig (srcToks src)) ∨ TokIs ts (Ast.tSels ss)) :
    (parse .selectionSet none rl src).errors = [] := by
  rcases hx with ⟨hx, hhead⟩ | hx
  · exact parseFieldSet_complete_sig rl src _ ts e hclean hsig he hx ⟨ss, hne, hb, hfit, Or.inl rfl⟩ hhead
  · -- brace-less: split off the ignored tokens in front
    obtain ⟨i0, l', hl, hi0, hhead⟩ := ign_split (srcToks src)
    have hsig' : sig l' = ts ++ [e] := by rw [← hsig, hl, sig_ign_append _ _ hi0]
    obtain ⟨c, c2, hc, h1, h2, hh2, hh1⟩ := sig_split l' ts [e] hsig' (by simp)
    obtain ⟨i, rfl, hi⟩ := sig_single_inv c2 e hh2 h2
    have htsne : ts ≠ [] := by
      intro h0; subst h0
      obtain ⟨a, x', e', _⟩ := tSels_head ss hne
      unfold TokIs at hx
      rw [e'] at hx; simp at hx
    have hnoc : NoEof c := noEof_of_tokIs c _ (by rw [h1]; exact hx)
    obtain ⟨pre, e0, hp, he0, hnop⟩ := stream_eof_end src.length (initState src none 0).lx (Nat.le_refl _) rfl rfl
    have hq : srcToks src = pre ++ [e0] := hp
    rw [hl, hc] at hq
    have hq' : pre ++ [e0] = (i0 ++ c) ++ (e :: i) := by rw [← hq]; simp
    obtain ⟨pre', hr, hnop'⟩ := split_eof (i0 ++ c) pre (e :: i) e0 hq' he0 (noEof_append (noEof_ignored i0 hi0) hnoc) hnop
    have hi00 : i = [] := by
      cases pre' with
      | nil => simp at hr; exact hr.2
      | cons y pre' =>
        exfalso
        simp only [List.cons_append] at hr
        injection hr with hr1 _
        exact hnop' y (by simp) (hr1 ▸ he)
    subst hi00
    have hsp : Spells c (Ast.tSels ss) := ⟨by rw [h1]; exact hx, hh1 htsne hhead⟩
    have htoks : srcToks src = i0 ++ (c ++ [e]) := by rw [hl, hc]
    -- run the entry point
    obtain ⟨root, htree⟩ := parseFieldSet_tree none rl src
    unfold parse runEntry at htree ⊢
    simp only [Entry.standalone, Entry.grammar] at htree ⊢
    generalize hs0 : ({ initState src none rl with builder := (initState src none rl).builder.startNode "SELECTION_SET" } : PState) = s0 at htree ⊢
    have w0 : TW s0 := by subst hs0; exact ⟨rfl, by intro h; simp [initState] at h⟩
    have ht0 : Toks s0 = i0 ++ (c ++ e :: []) := by subst hs0; exact htoks
    have hnd0 : ¬ Doomed s0 := by
      subst hs0
      rintro (h | h)
      · exact h rfl
      · unfold LexClean at hclean
        rw [show ({ initState src none rl with builder := (initState src none rl).builder.startNode "SELECTION_SET" } : PState).lx
          = (initState src none 0).lx from rfl, hclean] at h
        cases h
    have hb0 : s0.recLimit - s0.recCur = rl := by subst hs0; simp [initState]
    cases hr : (fieldSet (fuelFor src) >>= fun _ => expectEndOfInput).run s0 with
    | abort w => simp [hr] at htree
    | panic m => simp [hr] at htree
    | ok a s =>
      simp only []
      obtain ⟨_, sT, hT, h2⟩ := bind_dec (fieldSet (fuelFor src)) _ s0 s a hr
      have hse : Sigf e := by unfold Sigf; rw [he]; rfl
      obtain ⟨eT, htT⟩ := fieldSet_bare_lead (fuelFor src) s0 sT i0 c _ e [] w0 hi0 (by rw [hb0]; exact hb)
        (by rw [hb0]; exact ⟨ss, hne, rfl, hfit⟩) hsp ht0 hse (Or.inr he) hT
      unfold expectEndOfInput at h2
      obtain ⟨_, sK, hK, h4⟩ := bind_dec skipIgnored _ sT s a h2
      obtain ⟨eK, htK, _⟩ := skip_exact sT sK [] e [] eT.w hK (by simpa using htT) (by intro x hx; cases hx) hse
      obtain ⟨k, sP, hP, h5⟩ := bind_dec peek _ sK s a h4
      obtain ⟨hk, eP, _, _⟩ := peek_head sK sP k e [] eK.w htK hP
      subst hk
      have h5' : (pure () : PI Unit).run sP = .ok a s := by
        simpa [errUnlessEnd, he] using h5
      rw [run_pure] at h5'
      injection h5' with _ h5'
      subst h5'
      have hnd : ¬ Doomed sP := by
        intro d
        exact hnd0 (eT.doom.mp (eK.doom.mp (eP.doom.mp d)))
      by_cases herr : sP.errors = []
      · exact herr
      · exact absurd (Or.inl herr) hnd

end Apollo.Parse.Exact
