import ApolloModel.Proofs.ParserDef8
/-
C05 growth (type-system definitions), part 9: operation types and root operation type definitions,
with the known finding (`query:` with no named type is accepted) exposed in the relation.
-/
set_option linter.unusedSimpArgs false
namespace Apollo.Parse
open Apollo.Rowan hiding Str
open Apollo.Lex hiding Str

theorem name_sig : ∀ k : Kind, (k == Kind.name) = true → isIgnoredKind k = false := by
  intro k hk; have : k = .name := by simpa using hk
  subst this; rfl

theorem acc_opBump {E : PState → Prop} (t : Tok) (sk : SK) (op : Ast.OpType) (hd : t.data = op.name.toList) :
    Acc E (fun q => KindP (· == .name) q ∧ q.head? = some t) (bump sk) (fun _ x => x = [.name op.name.toList]) := by
  refine (acc_bump sk (fun t' => t'.kind = .name ∧ t'.data = op.name.toList) (fun x => x = [.name op.name.toList]) ?_).mono ?_
    (fun _ _ h => h)
  · rintro t' ⟨hk, hd'⟩
    exact ⟨by rw [hk]; rfl, by rw [hk]; decide, _, by simp [astOfV, hk, hd'], rfl⟩
  · rintro q ⟨⟨t', hh, hk⟩, h2⟩
    rw [hh] at h2
    have : t' = t := by simpa using h2
    subst this
    exact ⟨t', hh, by simpa using hk, hd⟩

/-- `operation_type` on a Name token: one of the three keywords -/
theorem acc_operationType {E : PState → Prop} (hE : Early E) :
    Acc E (KindP (· == .name)) operationType (fun _ x => ∃ op : Ast.OpType, x = [.name op.name.toList]) := by
  unfold operationType
  apply acc_peekData
  intro o
  cases o with
  | none =>
    refine acc_absurd (good_pure ()) ?_
    rintro q ⟨⟨t, hh, _⟩, h2⟩
    rw [hh] at h2; cases h2
  | some t =>
    simp only [Option.map]
    refine acc_withNode hE _ (fun q hq => kindP_sig _ name_sig q hq.1) ?_
    apply acc_ite
    · intro hk
      exact (acc_opBump t _ .query (by have h0 := hk; simp only [kw, beq_iff_eq] at h0; exact h0)).mono (fun _ h => h) (fun _ _ h => ⟨.query, h⟩)
    · intro _
      apply acc_ite
      · intro hk
        exact (acc_opBump t _ .subscription (by have h0 := hk; simp only [kw, beq_iff_eq] at h0; exact h0)).mono (fun _ h => h) (fun _ _ h => ⟨.subscription, h⟩)
      · intro _
        apply acc_ite
        · intro hk
          exact (acc_opBump t _ .mutation (by have h0 := hk; simp only [kw, beq_iff_eq] at h0; exact h0)).mono (fun _ h => h) (fun _ _ h => ⟨.mutation, h⟩)
        · intro _; exact acc_errAndPop

/-- `named_type` silently does nothing when no Name follows -/
theorem acc_namedType {E : PState → Prop} (hE : Early E) {H : List Tok → Prop} :
    Acc E H namedType (fun _ x => (∃ nm, x = [.name nm]) ∨ x = []) := by
  unfold namedType
  refine acc_ifKind .name _ _ _ ?_ ?_
  · exact (acc_withNodeAny hE "NAMED_TYPE" (acc_name (H := fun _ => True))).mono (fun _ _ => trivial) (fun _ _ h => Or.inl h)
  · exact (acc_pure E _ ()).mono (fun _ _ => trivial) (fun _ _ h => Or.inr h.2)

/-- **`schema.rs::root_operation_type_definition`**: either the printer's `op : Name`, or — the KNOWN FINDING —
    `op :` with the named type missing. -/
theorem acc_rootOperationTypeDefinition {E : PState → Prop} (hE : Early E) :
    Acc E (KindP (· == .name)) rootOperationTypeDefinition
      (fun _ x => ∃ op : Ast.OpType, (∃ nm, x = Ast.tRootOp (op, nm)) ∨ x = [.name op.name.toList, .p .colon]) := by
  unfold rootOperationTypeDefinition
  refine acc_withNode hE _ (kindP_sig _ name_sig) ?_
  have hc : Acc E (fun _ => True) (peek >>= fun k => if k == some .colon then (bump "COLON" >>= fun _ => namedType) else err)
      (fun _ x => (∃ nm, x = [.p .colon, .name nm]) ∨ x = [.p .colon]) := by
    refine acc_ifKind .colon _ _ _ ?_ acc_err
    refine (acc_bind hE acc_colon (fun _ => acc_namedType hE)).mono (fun _ h => h) ?_
    rintro _ x ⟨_, x1, x2, e, h1, h2⟩
    rcases h2 with ⟨nm, h2⟩ | h2
    · exact Or.inl ⟨nm, by rw [e, h1, h2]; rfl⟩
    · exact Or.inr (by rw [e, h1, h2]; rfl)
  refine (acc_bind hE (acc_operationType hE) (fun _ => hc)).mono (fun _ h => h) ?_
  rintro _ x ⟨_, x1, x2, e, ⟨op, h1⟩, h2⟩
  refine ⟨op, ?_⟩
  rcases h2 with ⟨nm, h2⟩ | h2
  · exact Or.inl ⟨nm, by rw [e, h1, h2]; rfl⟩
  · exact Or.inr (by rw [e, h1, h2]; rfl)

/-- reading an `Acc` statement without early exit as a plain soundness statement -/
theorem Acc.sound {α : Type} {H : List Tok → Prop} {m : PI α} {R : α → List Ast.Tok → Prop} (h : Acc (fun _ => False) H m R)
    (s s' : PState) (a : α) (w : TW s) (he : EofEnd s) (hq : H (Toks s)) (hr : m.run s = .ok a s') (hnd : ¬ Doomed s') :
    ∃ cs x, Toks s = cs ++ Toks s' ∧ NoEof cs ∧ EofEnd s' ∧ (sig cs).map astOfV = x.map some ∧ R a x := by
  obtain ⟨cs, a1, a2, a3, a4⟩ := h.2 s a s' w he hq hr hnd
  rcases a4 with ⟨x, hx, hR⟩ | h4
  · exact ⟨cs, x, a1, a2, a3, hx, hR⟩
  · exact absurd h4 id

end Apollo.Parse
