import ApolloModel.Proofs.ParserDef10
/-
C05 growth (type-system definitions), part 11: implements_interfaces, union_member_types, directive_locations.
-/
set_option linter.unusedSimpArgs false
namespace Apollo.Parse
open Apollo.Rowan hiding Str
open Apollo.Lex hiding Str

theorem acc_namedTypeAtName {E : PState → Prop} (hE : Early E) :
    Acc E (KindP (· == .name)) namedType (fun _ x => ∃ nm, x = [.name nm]) := by
  unfold namedType
  apply acc_peek
  intro k
  apply acc_ite
  · intro _
    exact (acc_withNodeAny hE "NAMED_TYPE" (acc_name (H := fun _ => True))).mono (fun _ _ => trivial) (fun _ _ h => h)
  · intro hk
    refine acc_absurd (good_pure ()) ?_
    rintro q ⟨⟨t, hh, hp⟩, h2⟩
    rw [hh] at h2
    subst h2
    simp at hk hp
    exact hk hp

/-- the item of the `&` and `|` lists: a named type, which must be there -/
def nameItem : PI Unit := peek >>= fun k => if k == some .name then namedType else err

theorem acc_nameItem {E : PState → Prop} (hE : Early E) {H : List Tok → Prop} :
    Acc E H nameItem (fun _ x => ∃ nm, x = [.name nm] ∧ True) := by
  unfold nameItem
  exact acc_ifKind .name _ _ _ ((acc_namedTypeAtName hE).mono (fun _ h => h) (fun _ _ ⟨nm, h⟩ => ⟨nm, h, trivial⟩)) acc_err

/-- the queue starts with a token whose text is `word` -/
def HeadData (word : String) (q : List Tok) : Prop := ∃ t, q.head? = some t ∧ t.data = word.toList

theorem kwWord_sig {word : String} (hw : KwWord word) :
    ∀ q, (LexQ q ∧ HeadData word q) → ∃ t rest, q = t :: rest ∧ isIgnoredKind t.kind = false := by
  rintro q ⟨hl, t, hh, hd⟩
  obtain ⟨c, r, hw1, hw2⟩ := hw
  have hk := hl.headKw hh word c r hw1 hw2 hd
  cases q with
  | nil => cases hh
  | cons a b =>
    simp only [List.head?_cons, Option.some.injEq] at hh
    subst hh
    exact ⟨a, b, rfl, by rw [hk]; rfl⟩

theorem kwWord_implements : KwWord "implements" := ⟨'i', "mplements".toList, rfl, by decide⟩

theorem implementsInterfaces_eq : implementsInterfaces = withNode "IMPLEMENTS_INTERFACES"
    (bump "implements_KW" >>= fun _ => parseSeparatedList .amp "AMP" nameItem) := rfl

/-- **`object.rs::implements_interfaces`** entered on the `implements` keyword:
    `implements &? Name (& Name)*`. -/
theorem acc_implementsInterfaces {E : PState → Prop} (hE : Early E) :
    Acc E (fun q => LexQ q ∧ HeadData "implements" q) implementsInterfaces
      (fun _ x => ∃ lead first rest, x = .name Ast.sImplements :: tSepLead .amp lead first rest) := by
  rw [implementsInterfaces_eq]
  refine acc_withNode hE _ (kwWord_sig kwWord_implements) ?_
  refine (acc_bind hE (accL_bumpKw "implements" kwWord_implements "implements_KW")
    (fun _ => acc_sepList hE .amp "AMP" .amp (by intro t ht; simp [astOfV, ht]) rfl (by decide) nameItem (fun _ => True)
      (acc_nameItem hE))).mono (fun _ h => h) ?_
  rintro _ x ⟨_, x1, x2, e, h1, lead, first, rest, h2, _, _⟩
  exact ⟨lead, first, rest, by rw [e, h1, h2]; rfl⟩

theorem unionMemberTypes_eq : unionMemberTypes = withNode "UNION_MEMBER_TYPES"
    (bump "EQ" >>= fun _ => parseSeparatedList .pipe "PIPE" nameItem) := rfl

theorem eq_sig : ∀ k : Kind, (k == Kind.eq) = true → isIgnoredKind k = false := by
  intro k hk; have : k = .eq := by simpa using hk
  subst this; rfl

/-- **`union_.rs::union_member_types`** entered on `=`: `= |? Name (| Name)*`. -/
theorem acc_unionMemberTypes {E : PState → Prop} (hE : Early E) :
    Acc E (KindP (· == .eq)) unionMemberTypes
      (fun _ x => ∃ lead first rest, x = .p .eq :: tSepLead .pipe lead first rest) := by
  rw [unionMemberTypes_eq]
  refine acc_withNode hE _ (kindP_sig _ eq_sig) ?_
  refine (acc_bind hE (acc_bumpKind .eq "EQ" (.p .eq) (by intro t ht; simp [astOfV, ht]) rfl (by decide))
    (fun _ => acc_sepList hE .pipe "PIPE" .pipe (by intro t ht; simp [astOfV, ht]) rfl (by decide) nameItem (fun _ => True)
      (acc_nameItem hE))).mono (fun _ h => h) ?_
  rintro _ x ⟨_, x1, x2, e, h1, lead, first, rest, h2, _, _⟩
  exact ⟨lead, first, rest, by rw [e, h1, h2]; rfl⟩

/-- the nineteen directive location names -/
def IsDirLoc (nm : Str) : Prop := nm ∈ directiveLocationKeywords.map String.toList

/-- **`directive.rs::directive_location`**: one of the nineteen location names -/
theorem acc_directiveLocation {E : PState → Prop} (hE : Early E) {H : List Tok → Prop} :
    Acc E H directiveLocation (fun _ x => ∃ nm, x = [.name nm] ∧ IsDirLoc nm) := by
  apply acc_nonempty
  unfold directiveLocation
  apply acc_peekToken
  intro o
  cases o with
  | none =>
    refine acc_absurd (good_pure ()) ?_
    rintro q ⟨⟨_, hne⟩, h2⟩
    cases q with
    | nil => exact hne rfl
    | cons a b => cases h2
  | some t =>
    simp only []
    apply acc_ite
    · intro hk
      have hk' : t.kind = .name := by simpa using hk
      split
      · rename_i k hf
        have hkw : t.data = k.toList := by
          have := List.find?_some hf
          simpa [kw] using this
        have hmem : k ∈ directiveLocationKeywords := List.mem_of_find?_eq_some hf
        refine acc_withNode hE _ ?_ ?_
        · rintro q ⟨_, hq⟩
          cases q with
          | nil => cases hq
          | cons a b =>
            simp only [List.head?_cons, Option.some.injEq] at hq
            subst hq
            exact ⟨a, b, rfl, by rw [hk']; rfl⟩
        · refine (acc_bump _ (fun t' => t' = t) (fun x => x = [.name k.toList]) ?_).mono ?_
            (fun _ x h => ⟨k.toList, h, List.mem_map.mpr ⟨k, hmem, rfl⟩⟩)
          · rintro t' rfl
            exact ⟨by rw [hk']; rfl, by rw [hk']; decide, _, by simp [astOfV, hk', hkw], rfl⟩
          · rintro q ⟨_, hq⟩
            exact ⟨t, hq, rfl⟩
      · exact acc_err
    · intro _; exact acc_err

/-- **`directive.rs::directive_locations`**: `|? Location (| Location)*`. -/
theorem acc_directiveLocations {E : PState → Prop} (hE : Early E) {H : List Tok → Prop} :
    Acc E H directiveLocations
      (fun _ x => ∃ lead first rest, x = tSepLead .pipe lead first rest ∧ IsDirLoc first ∧ ∀ r ∈ rest, IsDirLoc r) := by
  unfold directiveLocations
  exact acc_sepList hE .pipe "PIPE" .pipe (by intro t ht; simp [astOfV, ht]) rfl (by decide) directiveLocation IsDirLoc
    (acc_directiveLocation hE)

end Apollo.Parse
