import ApolloModel.Proofs.ParserRecursion26
/-
C04 growth (closed form of the nesting depth), part 27: nodes.  What `start_node … finish_node` and
`checkpoint … wrap_node` add to the tree, the rule for a node kind that costs nothing, the rule for a node whose
body runs under the recursion guard, and the "flat" judgement (`FL`: adds only depth-free elements, leaves the
tracker alone) for the token-level primitives around the guards.
-/
set_option linter.unusedSimpArgs false
set_option linter.unusedVariables false
namespace Apollo.Parse
open Apollo.Rowan hiding Str
open Apollo.Lex hiding Str

/-- `start_node(K) … finish_node`: the body's additions end up as the children of one new `K` node, after the
    ignored tokens that were pending -/
theorem withNode_added {α : Type} (K : SK) (body : PI α) (s s' : PState) (a : α) (hi : Inv s)
    (h : (withNode K body).run s = .ok a s') :
    ∃ s2 cs b, (skipIgnored >>= fun _ => body).run (wnPre K s) = .ok a s2 ∧ Inv (wnPre K s) ∧
      s2.builder.children = (wnPre K s).builder.children ++ cs ∧ s' = { s2 with builder := b } ∧
      b.children = s.builder.children ++ (s.pending.map pendingElem ++ [Elem.node K cs]) := by
  rw [withNode_run] at h
  have hi0 := inv_wnPre K s hi
  cases hr : (skipIgnored >>= fun _ => body).run (wnPre K s) with
  | abort w => rw [hr] at h; cases h
  | panic m => rw [hr] at h; cases h
  | ok a2 s2 =>
    rw [hr] at h
    simp only [] at h
    obtain ⟨_, fr⟩ := post_of_run _ _ hi0 a2 s2 hr
    have hp : s2.builder.parents = (K, (s.builder.children ++ s.pending.map pendingElem).length) :: s.builder.parents := by
      rw [fr.parents]; rfl
    obtain ⟨cs, hcs⟩ := fr.children
    have hbase : (wnPre K s).builder.children = s.builder.children ++ s.pending.map pendingElem := rfl
    simp only [Builder.finishNode, hp, Res.ok.injEq] at h
    obtain ⟨rfl, rfl⟩ := h
    refine ⟨s2, cs, _, rfl, hi0, hcs, rfl, ?_⟩
    simp only []
    rw [hcs, hbase, List.take_left' rfl, List.drop_left' rfl, List.append_assoc]

theorem wnPre_fields (K : SK) (s : PState) :
    (wnPre K s).errors = s.errors ∧ (wnPre K s).acceptErrors = s.acceptErrors ∧ (wnPre K s).recHigh = s.recHigh ∧
    (wnPre K s).recCur = s.recCur ∧ (wnPre K s).recLimit = s.recLimit ∧ (wnPre K s).current = s.current :=
  ⟨rfl, rfl, rfl, rfl, rfl, rfl⟩

/-- a node of kind `K`: the depth of the node is `gdl cs + off`, the body's judgement has offset `off` -/
theorem gd_withNode_core {α : Type} (K : SK) (body : PI α) (off : Nat)
    (hin : ∀ s a s', Inv s → (skipIgnored >>= fun _ => body).run s = .ok a s' →
      ∃ extra added, GWOut s s' extra added ∧ Exact s s' extra added off)
    (hK : ∀ cs, gd (.node K cs) = gdl cs + off) : GD (withNode K body) := by
  constructor
  intro s a s' hi h
  obtain ⟨s2, cs, b, hr, hi0, hcs, rfl, hb⟩ := withNode_added K body s s' a hi h
  obtain ⟨e, ad, w, x⟩ := hin _ a s2 hi0 hr
  have hcs2 : ad = cs := List.append_cancel_left (w.kids.symm.trans hcs)
  subst hcs2
  refine ⟨e, s.pending.map pendingElem ++ [Elem.node K ad], ⟨w.errs, hb, w.mono, w.acc⟩, ?_⟩
  intro he ha hh hc
  have r := x he ha hh hc
  show s2.recHigh = _
  rw [r, gdl_append, gdl_pending, gdl_single, hK]
  show max s.recHigh (s.recCur + gdl ad + off) = max s.recHigh (s.recCur + max 0 (gdl ad + off) + 0)
  omega

/-! ### flat computations -/

/-- adds only depth-free elements (tokens, and nodes without guarded constructs) and leaves the tracker alone -/
structure FL {α : Type} (m : PI α) : Prop where
  f : ∀ s a s', Inv s → m.run s = .ok a s' → ∃ added, s'.builder.children = s.builder.children ++ added ∧ gdl added = 0 ∧
    s'.recHigh = s.recHigh

theorem fl_pure {α : Type} (a : α) : FL (pure a : PI α) := by
  constructor
  intro s a' s' _ h
  rw [run_pure] at h
  injection h with _ h
  subst h
  exact ⟨[], by simp, rfl, rfl⟩

theorem fl_bind {α β : Type} (m : PI α) (f : α → PI β) (hm : FL m) (hf : ∀ a, FL (f a)) : FL (m >>= f) := by
  constructor
  intro s b s'' hi h
  obtain ⟨a, s', h1, h2⟩ := bind_dec m f s s'' b h
  obtain ⟨hi', _⟩ := post_of_run m s hi a s' h1
  obtain ⟨a1, k1, g1, r1⟩ := hm.f s a s' hi h1
  obtain ⟨a2, k2, g2, r2⟩ := (hf a).f s' b s'' hi' h2
  exact ⟨a1 ++ a2, by rw [k2, k1, List.append_assoc], by rw [gdl_append, g1, g2]; rfl, r2.trans r1⟩

theorem fl_ite {α : Type} (c : Bool) (a b : PI α) (ha : FL a) (hb : FL b) : FL (if c then a else b) := by
  cases c <;> simp [ha, hb]

theorem fl_same {α : Type} {m : PI α}
    (h : ∀ s a s', m.run s = .ok a s' → s'.builder.children = s.builder.children ∧ s'.recHigh = s.recHigh) : FL m := by
  constructor
  intro s a s' _ hr
  obtain ⟨h1, h2⟩ := h s a s' hr
  exact ⟨[], by simp [h1], rfl, h2⟩

theorem fl_outOfFuel {α : Type} : FL (PI.outOfFuel : PI α) := ⟨fun s a s' _ h => by simp [PI.outOfFuel] at h⟩

theorem fl_peekToken : FL peekToken := by
  constructor
  intro s o s' hi h
  obtain ⟨e, ad, w, _⟩ := gd_peekToken.g s o s' hi h
  have hp := plain_peekToken.out s o s' h
  unfold peekToken at h
  simp only [] at h
  cases hc : s.current with
  | some t =>
    simp only [hc, Res.ok.injEq] at h
    obtain ⟨_, rfl⟩ := h
    exact ⟨[], by simp, rfl, rfl⟩
  | none =>
    simp only [hc, Res.ok.injEq] at h
    obtain ⟨_, rfl⟩ := h
    have hb := (nextTokenRaw_spec (s.lx.src.length + 3) s).builder
    exact ⟨[], by show (nextTokenRaw (s.lx.src.length + 3) s).2.builder.children = _; simp [hb], rfl, hp.recHigh⟩

theorem fl_moveCurToPending : FL moveCurToPending := by
  refine fl_same ?_
  intro s b s' h
  unfold moveCurToPending at h
  simp only [] at h
  cases hc : s.current with
  | none => simp only [hc] at h; injection h with _ h; subst h; exact ⟨rfl, rfl⟩
  | some t => simp only [hc] at h; split at h <;> (injection h with _ h; subst h; exact ⟨rfl, rfl⟩)

theorem fl_srcLen : FL srcLen :=
  fl_same (fun s a s' h => by unfold srcLen at h; simp only [] at h; injection h with _ h; subst h; exact ⟨rfl, rfl⟩)

theorem fl_pushIgnored : FL pushIgnored := by
  constructor
  intro s a s' _ h
  unfold pushIgnored at h; simp only [] at h; injection h with _ h; subst h
  exact ⟨_, rfl, gdl_pending _, rfl⟩

theorem fl_moveCurToTree (kind : SK) : FL (moveCurToTree kind) := by
  constructor
  intro s a s' _ h
  unfold moveCurToTree at h
  simp only [] at h
  cases hc : s.current with
  | none => simp only [hc] at h; injection h with _ h; subst h; exact ⟨[], by simp, rfl, rfl⟩
  | some t =>
    simp only [hc] at h; injection h with _ h; subst h
    exact ⟨s.pending.map pendingElem ++ [.tok kind t.data], by simp [List.append_assoc],
      by rw [gdl_append, gdl_pending, gdl_tok]; rfl, rfl⟩

theorem fl_pushErr (e : PErr) : FL (pushErr e) :=
  fl_same (fun s a s' h => by unfold pushErr errUpdate at h; simp only [] at h; injection h with _ h; subst h; exact ⟨rfl, rfl⟩)

theorem fl_skipIgnoredLoop : ∀ fuel, FL (skipIgnoredLoop fuel)
  | 0 => fl_outOfFuel
  | fuel + 1 => by
    unfold skipIgnoredLoop
    exact fl_bind _ _ fl_peekToken (fun _ => fl_bind _ _ fl_moveCurToPending
      (fun b => fl_ite b _ _ (fl_skipIgnoredLoop fuel) (fl_pure _)))

theorem fl_skipIgnored : FL skipIgnored := by
  unfold skipIgnored
  exact fl_bind _ _ fl_srcLen (fun n => fl_skipIgnoredLoop (n + 3))

theorem fl_peek : FL peek := by
  unfold peek
  exact fl_bind _ _ fl_peekToken (fun _ => fl_pure _)

theorem fl_eat (k : SK) : FL (eat k) := by
  unfold eat
  exact fl_bind _ _ fl_pushIgnored (fun _ => fl_bind _ _ fl_peekToken (fun _ => fl_moveCurToTree k))

theorem fl_bump (k : SK) : FL (bump k) := by
  unfold bump
  exact fl_bind _ _ (fl_eat k) (fun _ => fl_skipIgnored)

theorem fl_errAtToken (t : Tok) : FL (errAtToken t) := fl_pushErr _

theorem fl_err : FL err := by
  unfold err
  refine fl_bind _ _ fl_peekToken (fun o => ?_)
  cases o with
  | none => exact fl_pure _
  | some t => exact fl_pushErr _

theorem fl_expect (t : Kind) (k : SK) : FL (expect t k) := by
  unfold expect
  refine fl_bind _ _ fl_peekToken (fun o => ?_)
  cases o with
  | none => exact fl_pure _
  | some tk => exact fl_ite _ _ _ (fl_bump k) (fl_pushErr _)

/-- a node that costs nothing around a flat body is flat -/
theorem fl_withNode {α : Type} (K : SK) (body : PI α) (hK : PlainKind K) (hb : FL body) : FL (withNode K body) := by
  constructor
  intro s a s' hi h
  obtain ⟨s2, cs, b, hr, hi0, hcs, rfl, hbc⟩ := withNode_added K body s s' a hi h
  obtain ⟨ad, k, g, r⟩ := (fl_bind _ _ fl_skipIgnored (fun _ => hb)).f _ a s2 hi0 hr
  have : ad = cs := List.append_cancel_left (k.symm.trans hcs)
  subst this
  exact ⟨_, hbc, by rw [gdl_append, gdl_pending, gdl_single, gd_plain hK, g]; rfl, r⟩

theorem fl_name : FL name := by
  unfold name
  refine fl_bind _ _ fl_peekToken (fun o => ?_)
  cases o with
  | none => exact fl_err
  | some t => exact fl_ite _ _ _ (fl_withNode _ _ (by decide) (fl_bump _)) fl_err

/-! ### sequencing a guarded part with flat parts -/

theorem gd1_bind_left {α β : Type} (m : PI α) (f : α → PI β) (hm : GD m) (fm : FL m) (hf : ∀ a, GD1 (f a)) :
    GD1 (m >>= f) := by
  constructor
  intro s b s'' hi h
  obtain ⟨a, s', h1, h2⟩ := bind_dec m f s s'' b h
  obtain ⟨hi', fr⟩ := post_of_run m s hi a s' h1
  obtain ⟨e1, a1, w1, _⟩ := hm.g s a s' hi h1
  obtain ⟨a1', k1, g1, r1⟩ := fm.f s a s' hi h1
  have : a1' = a1 := List.append_cancel_left (k1.symm.trans w1.kids)
  subst this
  obtain ⟨e2, a2, w2, x2⟩ := (hf a).g s' b s'' hi' h2
  refine ⟨e1 ++ e2, a1' ++ a2, ⟨by rw [w2.errs, w1.errs, List.append_assoc], by rw [w2.kids, w1.kids, List.append_assoc],
    Nat.le_trans w1.mono w2.mono, fun he => ?_⟩, ?_⟩
  · obtain ⟨he1, he2⟩ := List.append_eq_nil_iff.mp he
    rw [w2.acc he2, w1.acc he1]
  · intro he ha hh hc
    obtain ⟨he1, he2⟩ := List.append_eq_nil_iff.mp he
    have r2 := x2 he2 (by rw [w1.acc he1]; exact ha) (by rw [fr.recLimit]; exact hh) (by rw [fr.recCur, r1]; exact hc)
    rw [r2, r1, fr.recCur, gdl_append, g1]
    omega

theorem gd1_bind_right {α β : Type} (m : PI α) (f : α → PI β) (hm : GD1 m) (hf : ∀ a, GD (f a)) (ff : ∀ a, FL (f a)) :
    GD1 (m >>= f) := by
  constructor
  intro s b s'' hi h
  obtain ⟨a, s', h1, h2⟩ := bind_dec m f s s'' b h
  obtain ⟨hi', fr⟩ := post_of_run m s hi a s' h1
  obtain ⟨e1, a1, w1, x1⟩ := hm.g s a s' hi h1
  obtain ⟨e2, a2, w2, _⟩ := (hf a).g s' b s'' hi' h2
  obtain ⟨a2', k2, g2, r2⟩ := (ff a).f s' b s'' hi' h2
  have : a2' = a2 := List.append_cancel_left (k2.symm.trans w2.kids)
  subst this
  refine ⟨e1 ++ e2, a1 ++ a2', ⟨by rw [w2.errs, w1.errs, List.append_assoc], by rw [w2.kids, w1.kids, List.append_assoc],
    Nat.le_trans w1.mono w2.mono, fun he => ?_⟩, ?_⟩
  · obtain ⟨he1, he2⟩ := List.append_eq_nil_iff.mp he
    rw [w2.acc he2, w1.acc he1]
  · intro he ha hh hc
    obtain ⟨he1, he2⟩ := List.append_eq_nil_iff.mp he
    have r1 := x1 he1 ha (by rw [← r2]; exact hh) hc
    rw [r2, r1, gdl_append, g2]
    omega

/-- a node that costs nothing -/
theorem gd_withNode {α : Type} (K : SK) (body : PI α) (hK : PlainKind K) (hs : GD skipIgnored) (hb : GD body) :
    GD (withNode K body) :=
  gd_withNode_core K body 0 (fun s a s' hi hr => (gd_bind _ _ hs (fun _ => hb)).g s a s' hi hr)
    (fun cs => by rw [gd_plain hK]; rfl)

/-- a `SELECTION_SET` / `LIST_TYPE` node: its body runs under the guard -/
theorem gd_withNode_guard {α : Type} (K : SK) (body : PI α) (hK : K = "SELECTION_SET" ∨ K = "LIST_TYPE")
    (hs : GD skipIgnored) (hb : GD1 body) : GD (withNode K body) :=
  gd_withNode_core K body 1 (fun s a s' hi hr => (gd1_bind_left _ _ hs fl_skipIgnored (fun _ => hb)).g s a s' hi hr)
    (fun cs => gd_guard hK cs)

end Apollo.Parse
