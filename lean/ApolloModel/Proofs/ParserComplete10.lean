import ApolloModel.Proofs.ParserComplete9
import ApolloModel.Proofs.ParserTermination8
/-
C05 / C07 growth (completeness), part 10: link to termination — with enough fuel the run FINISHES and
consumed exactly the spelling without error.  `W` is builderA's position bookkeeping (ParserTermination),
`Inv` the model's tree-builder invariant (no panic), `TW` "no token limit".
-/
namespace Apollo.Parse
open Apollo.Rowan hiding Str
open Apollo.Lex hiding Str

/-- a run from a state satisfying the invariant that cannot abort ends normally -/
theorem run_finishes {α : Type} (m : PI α) (s : PState) {Q : α → Option Tok → LexSt → Prop}
    (hinv : Inv s) (ht : Term m s Q) : ∃ a s', m.run s = .ok a s' := by
  have hok := m.ok s hinv
  cases hr : m.run s with
  | ok a s' => exact ⟨a, s', rfl⟩
  | abort w => exact absurd hr (ht.1 w)
  | panic msg => rw [hr] at hok; exact absurd hok (by simp [Post])

/-- completeness judgement + termination = total completeness -/
theorem Cmp.total {m : PI Unit} {L : Nat → List Ast.Tok → Prop} {F : Kind → Prop} {Qt : Unit → Option Tok → LexSt → Prop}
    (h : Cmp (fun _ => True) m L F (fun _ => True)) (s : PState) (hinv : Inv s) (ht : Term m s Qt) (w : TW s)
    (c : List Tok) (x : List Ast.Tok) (q0 : Tok) (rest : List Tok) (hl : L (s.recLimit - s.recCur) x) (hs : Spells c x)
    (htk : Toks s = c ++ q0 :: rest) (hq : Sigf q0) (hf : F q0.kind) :
    ∃ s', m.run s = .ok () s' ∧ Eat s s' c ∧ Toks s' = q0 :: rest := by
  obtain ⟨a, s', hr⟩ := run_finishes m s hinv ht
  obtain ⟨e, t, _⟩ := h s s' a c x q0 rest w hr hl hs htk hq hf trivial
  exact ⟨s', hr, e, t⟩

theorem value_complete_total (n : Nat) (isConst pop : Bool) (s : PState) (hinv : Inv s) (hw : W s) (w : TW s)
    (hfuel : 2 * Mm s + 2 ≤ n) (c : List Tok) (x : List Ast.Tok) (q0 : Tok) (rest : List Tok)
    (hl : LVal isConst (s.recLimit - s.recCur) x) (hs : Spells c x) (htk : Toks s = c ++ q0 :: rest) (hq : Sigf q0) :
    ∃ s', (value n isConst pop).run s = .ok () s' ∧ Eat s s' c ∧ Toks s' = q0 :: rest :=
  (value_complete n isConst pop).total s hinv ((value_family n).value isConst pop s hw hfuel) w c x q0 rest hl hs htk hq trivial

theorem arguments_complete_total (n : Nat) (isConst : Bool) (s : PState) (hinv : Inv s) (hw : W s) (w : TW s)
    (hfuel : 4 * Mm s + 4 ≤ n) (c : List Tok) (x : List Ast.Tok) (q0 : Tok) (rest : List Tok)
    (hl : LArgs isConst (s.recLimit - s.recCur) x) (hs : Spells c x) (htk : Toks s = c ++ q0 :: rest) (hq : Sigf q0) :
    ∃ s', (arguments n isConst).run s = .ok () s' ∧ Eat s s' c ∧ Toks s' = q0 :: rest :=
  (arguments_complete n isConst).total s hinv (ta_arguments n isConst s hw hfuel) w c x q0 rest hl hs htk hq trivial

theorem directives_complete_total (n : Nat) (isConst : Bool) (s : PState) (hinv : Inv s) (hw : W s) (w : TW s)
    (hfuel : 4 * Mm s + 4 ≤ n) (c : List Tok) (x : List Ast.Tok) (q0 : Tok) (rest : List Tok)
    (hl : LDirs isConst (s.recLimit - s.recCur) x) (hs : Spells c x) (htk : Toks s = c ++ q0 :: rest) (hq : Sigf q0)
    (hf : q0.kind ≠ .at ∧ q0.kind ≠ .lParen) :
    ∃ s', (directives n isConst).run s = .ok () s' ∧ Eat s s' c ∧ Toks s' = q0 :: rest :=
  (directives_complete n isConst).total s hinv (ta_directives n isConst s hw hfuel) w c x q0 rest hl hs htk hq hf

theorem selectionSet_complete_total (n : Nat) (s : PState) (hinv : Inv s) (hw : W s) (w : TW s)
    (hfuel : 4 * Mm s + 2 ≤ n) (c : List Tok) (x : List Ast.Tok) (q0 : Tok) (rest : List Tok)
    (hl : LSet (s.recLimit - s.recCur) x) (hs : Spells c x) (htk : Toks s = c ++ q0 :: rest) (hq : Sigf q0) :
    ∃ s', (selectionSet n).run s = .ok () s' ∧ Eat s s' c ∧ Toks s' = q0 :: rest :=
  (selectionSet_complete n).total s hinv ((sel_family n).ss s hw hfuel) w c x q0 rest hl hs htk hq trivial

end Apollo.Parse
