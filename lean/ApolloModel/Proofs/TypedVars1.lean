import ApolloModel.Proofs.ExecRules
import ApolloModel.Model.TypedVars
/-
C18 on top of the typed executable rules (Model/ExecRules.lean): COMPLETENESS of the variable part of
`value_of_correct_type` — a value whose check reports nothing has all its variables declared, at every depth:
in lists, in input-object literals, in list / object literals given to a custom scalar.
-/
namespace Apollo.ExecRules
open Apollo Apollo.Spec

/-- the operation declares the variable -/
def declared (vars : List RVarDef) (n : String) : Bool := vars.any (·.name == n)

theorem declared_of_find {vars : List RVarDef} {n : String} {vd : RVarDef} (h : vars.find? (·.name == n) = some vd) :
    declared vars n = true := by
  unfold declared
  rw [List.any_eq_true]
  have h2 := List.find?_some h
  exact ⟨vd, List.mem_of_find?_eq_some h, h2⟩

/-! ### variables and depth of list / object literals -/

theorem mem_varsList (n : String) : ∀ xs : List RVal, n ∈ RVal.varsList xs ↔ ∃ x ∈ xs, n ∈ RVal.vars x
  | [] => by simp [RVal.varsList]
  | x :: xs => by simp [RVal.varsList, mem_varsList n xs]

theorem mem_varsFields (n : String) : ∀ kvs : List (String × RVal), n ∈ RVal.varsFields kvs ↔ ∃ kv ∈ kvs, n ∈ RVal.vars kv.2
  | [] => by simp [RVal.varsFields]
  | (k, x) :: rest => by simp [RVal.varsFields, mem_varsFields n rest]

theorem depth_le_depthList : ∀ (xs : List RVal) (x : RVal), x ∈ xs → RVal.depth x ≤ RVal.depthList xs
  | [], _, h => by cases h
  | y :: ys, x, h => by
    simp only [RVal.depthList]
    rcases List.mem_cons.mp h with rfl | h
    · omega
    · have := depth_le_depthList ys x h; omega

theorem depth_le_depthFields : ∀ (kvs : List (String × RVal)) (kv : String × RVal), kv ∈ kvs → RVal.depth kv.2 ≤ RVal.depthFields kvs
  | [], _, h => by cases h
  | (k, y) :: rest, kv, h => by
    simp only [RVal.depthFields]
    rcases List.mem_cons.mp h with rfl | h
    · simp only; omega
    · have := depth_le_depthFields rest kv h; omega

theorem depth_pos (v : RVal) : 1 ≤ RVal.depth v := by cases v <;> simp [RVal.depth]

/-! ### a literal given to a custom scalar -/

theorem opaqueVars_complete (vars : List RVarDef) : ∀ (k : Nat) (v : RVal), RVal.depth v ≤ k → opaqueVars vars k v = [] →
    ∀ n ∈ RVal.vars v, declared vars n = true := by
  intro k
  induction k with
  | zero => intro v hd; have := depth_pos v; omega
  | succ k ih =>
    intro v hd h n hn
    cases v with
    | var m =>
      simp only [RVal.vars, List.mem_singleton] at hn
      subst hn
      simp only [opaqueVars] at h
      by_cases hc : vars.any (·.name == n) = true
      · exact hc
      · simp [hc] at h
    | null => simp [RVal.vars] at hn
    | lit => simp [RVal.vars] at hn
    | list xs =>
      simp only [RVal.vars] at hn
      obtain ⟨x, hx, hnx⟩ := (mem_varsList n xs).mp hn
      simp only [opaqueVars, List.flatMap_eq_nil_iff] at h
      have hdx := depth_le_depthList xs x hx
      simp only [RVal.depth] at hd
      exact ih x (by omega) (h x hx) n hnx
    | obj kvs =>
      simp only [RVal.vars] at hn
      obtain ⟨kv, hkv, hnx⟩ := (mem_varsFields n kvs).mp hn
      simp only [opaqueVars, List.flatMap_eq_nil_iff] at h
      have hdx := depth_le_depthFields kvs kv hkv
      simp only [RVal.depth] at hd
      exact ih kv.2 (by omega) (h kv hkv) n hnx

/-! ### what remains a hypothesis about a literal: the type of every position the check descends into is known
    (`schema.types.get(name)` answers). For a schema whose input types are closed (`InputClosed`, what a valid
    schema guarantees) this follows from the type of the argument alone: `litOk_of_closed`. That an object literal
    names only defined fields, each once, is no longer assumed: `valueDiags` reports it (`keyDiags`). -/

def litOk (s : RSchema) : Nat → Ty → RVal → Prop
  | 0, _, _ => True
  | k + 1, ty, v =>
    match s.kindForValue ty.innerNamedType with
    | none => False
    | some kind =>
      match v with
      | .list xs => ∀ x ∈ xs, litOk s k (itemTy ty) x
      | .obj kvs =>
        (match kind with
         | .inputObject fields =>
           ∀ kv ∈ kvs, ∀ fd, fields.find? (·.name == kv.1) = some fd → litOk s k fd.ty kv.2
         | _ => True)
      | _ => True

/-- every input-object field of the schema has a type the schema knows -/
def InputClosed (s : RSchema) : Prop :=
  ∀ n fields, s.kindForValue n = some (.inputObject fields) → ∀ fd ∈ fields, (s.kindForValue fd.ty.innerNamedType).isSome

theorem innerNamedType_itemTy (ty : Ty) : (itemTy ty).innerNamedType = ty.innerNamedType := by
  cases ty <;> simp [itemTy, Ty.innerNamedType]

theorem litOk_of_closed (s : RSchema) (hc : InputClosed s) : ∀ (k : Nat) (ty : Ty) (v : RVal),
    (s.kindForValue ty.innerNamedType).isSome → litOk s k ty v := by
  intro k
  induction k with
  | zero => intro ty v _; trivial
  | succ k ih =>
    intro ty v hk
    simp only [litOk]
    cases hkd : s.kindForValue ty.innerNamedType with
    | none => rw [hkd] at hk; cases hk
    | some kind =>
      simp only
      cases v with
      | list xs => intro x _; exact ih _ x (by rw [innerNamedType_itemTy]; exact hk)
      | obj kvs =>
        cases kind with
        | inputObject fields =>
          intro kv _ fd hfd
          exact ih _ kv.2 (hc _ fields hkd fd (List.mem_of_find?_eq_some hfd))
        | _ => trivial
      | _ => trivial

theorem find_of_nodup_keys : ∀ (kvs : List (String × RVal)) (kv : String × RVal), (kvs.map (·.1)).Nodup → kv ∈ kvs →
    kvs.find? (·.1 == kv.1) = some kv
  | [], _, _, h => by cases h
  | (k, y) :: rest, kv, hn, h => by
    simp only [List.map_cons, List.nodup_cons] at hn
    rcases List.mem_cons.mp h with rfl | h
    · simp
    · have hne : ¬ (k = kv.1) := by
        intro e
        apply hn.1
        rw [e]
        exact List.mem_map.mpr ⟨kv, h, rfl⟩
      rw [List.find?_cons_of_neg (by simpa using hne)]
      exact find_of_nodup_keys rest kv hn.2 h

/-- **completeness of the variable part of `value_of_correct_type`** -/
theorem valueDiags_complete (s : RSchema) (vars : List RVarDef) : ∀ (k : Nat) (ty : Ty) (v : RVal), RVal.depth v ≤ k →
    litOk s k ty v → valueDiags s vars k ty v = [] → ∀ n ∈ RVal.vars v, declared vars n = true := by
  intro k
  induction k with
  | zero => intro ty v hd; have := depth_pos v; omega
  | succ k ih =>
    intro ty v hd hl h n hn
    simp only [valueDiags] at h
    simp only [litOk] at hl
    cases hk : s.kindForValue ty.innerNamedType with
    | none => rw [hk] at hl; exact absurd hl id
    | some kind =>
      rw [hk] at h hl
      simp only at h hl
      cases v with
      | var m =>
        simp only [RVal.vars, List.mem_singleton] at hn
        subst hn
        simp only [varValueDiags] at h
        cases hf : vars.find? (·.name == n) with
        | none => rw [hf] at h; simp at h
        | some vd => exact declared_of_find hf
      | null => simp [RVal.vars] at hn
      | lit => simp [RVal.vars] at hn
      | list xs =>
        simp only [RVal.vars] at hn
        obtain ⟨x, hx, hnx⟩ := (mem_varsList n xs).mp hn
        simp only at h hl
        have hdx := depth_le_depthList xs x hx
        simp only [RVal.depth] at hd
        by_cases ha : acceptsList ty kind = true
        · by_cases hlist : ty.isList = true
          · by_cases hi : kind.isInput = true
            · simp only [ha, hi, hlist, Bool.not_true, Bool.false_eq_true, if_false, if_true, List.flatMap_eq_nil_iff] at h
              exact ih _ x (by omega) (hl x hx) (h x hx) n hnx
            · simp [ha, hi, hlist] at h
          · -- a list literal at a non-list custom scalar: opaque (fix 115f905)
            have hlf : ty.isList = false := by simpa using hlist
            simp only [ha, hlf, Bool.not_false, Bool.not_true, Bool.false_eq_true, if_true, if_false, List.flatMap_eq_nil_iff] at h
            exact opaqueVars_complete vars k x (by omega) (h x hx) n hnx
        · simp [ha] at h
      | obj kvs =>
        simp only [RVal.vars] at hn
        obtain ⟨kv, hkv, hnx⟩ := (mem_varsFields n kvs).mp hn
        have hdx := depth_le_depthFields kvs kv hkv
        simp only [RVal.depth] at hd
        simp only at h hl
        cases kind with
        | scalar b =>
          cases b with
          | false =>
            simp only [List.flatMap_eq_nil_iff] at h
            exact opaqueVars_complete vars k kv.2 (by omega) (h kv hkv) n hnx
          | true => simp at h
        | inputObject fields =>
          simp only at h hl
          simp only [List.append_eq_nil_iff, List.flatMap_eq_nil_iff] at h
          obtain ⟨hnod, hall⟩ := (keyDiags_iff fields kvs).mp h.1
          obtain ⟨fd, hfd⟩ := hall kv hkv
          have hlk := hl kv hkv fd hfd
          replace h := h.2
          have hmem : fd ∈ fields := List.mem_of_find?_eq_some hfd
          have hname : fd.name = kv.1 := by simpa using List.find?_some hfd
          have h1 := h fd hmem
          rw [hname, find_of_nodup_keys kvs kv hnod hkv] at h1
          exact ih _ kv.2 (by omega) hlk h1 n hnx
        | enum => simp at h
        | object _ => simp at h
        | interface _ => simp at h
        | union _ => simp at h

end Apollo.ExecRules
