import ApolloModel.Proofs.Coercion
/- C28: the fuel the entry point passes is enough — `outOfFuel` is never the outcome. -/
namespace Apollo.Coercion
open Apollo Apollo.Spec AList

theorem size_get? : ∀ (kvs : AList Json) (k : String) (v : Json), get? kvs k = some v → v.size ≤ Json.sizeFields kvs := by
  intro kvs
  induction kvs with
  | nil => intro k v h; simp [get?] at h
  | cons hd tl ih =>
    intro k v h
    obtain ⟨a, b⟩ := hd
    simp only [get?] at h
    simp only [Json.sizeFields]
    split at h
    · cases h; omega
    · have := ih k v h; omega

theorem size_mem : ∀ (xs : List Json) (x : Json), x ∈ xs → x.size ≤ Json.sizeList xs := by
  intro xs
  induction xs with
  | nil => intro x h; simp at h
  | cons a tl ih =>
    intro x h
    simp only [Json.sizeList]
    simp only [List.mem_cons] at h
    rcases h with rfl | h
    · omega
    · have := ih x h; omega

theorem depth_mem : ∀ (defs : List InputDef) (d : InputDef), d ∈ defs → d.ty.depth ≤ maxDepthDefs defs := by
  intro defs
  induction defs with
  | nil => intro d h; simp at h
  | cons a tl ih =>
    intro d h
    simp only [maxDepthDefs]
    simp only [List.mem_cons] at h
    rcases h with rfl | h
    · omega
    · have := ih d h; omega

theorem depth_types : ∀ (types : AList TypeDef) (n : String) (fields : List InputDef),
    get? types n = some (.input fields) → maxDepthDefs fields ≤ maxDepthTypes types := by
  intro types
  induction types with
  | nil => intro n fields h; simp [get?] at h
  | cons hd tl ih =>
    intro n fields h
    obtain ⟨a, td⟩ := hd
    simp only [get?] at h
    split at h
    · cases h
      simp only [maxDepthTypes]
      omega
    · have := ih n fields h
      cases td <;> simp only [maxDepthTypes] <;> omega

theorem depth_typeDef (s : ExecSchema) (n : String) (fields : List InputDef)
    (h : s.typeDef? n = some (.input fields)) : maxDepthDefs fields ≤ maxDepthTypes s.types := by
  unfold ExecSchema.typeDef? at h
  split at h
  · cases h
  · exact depth_types _ _ _ h

theorem shape_list_depth {ty inner : Ty} (h : ty.shape = .list inner) : ty.depth = inner.depth + 1 := by
  cases ty <;> simp [Ty.shape] at h <;> subst h <;> simp [Ty.depth]

theorem coerceValue_fuel (s : ExecSchema) : ∀ n ty v,
    v.size * (maxDepthTypes s.types + 1) + ty.depth < n → coerceValue n s ty v ≠ .error .outOfFuel := by
  intro n
  induction n with
  | zero => intro ty v h; omega
  | succ n ih =>
    intro ty v hlt h
    simp only [coerceValue] at h
    cases hnull : v.isNull with
    | true =>
      simp only [hnull, if_true] at h
      split at h <;> cases h
    | false =>
      simp only [hnull] at h
      cases hsh : ty.shape with
      | list inner =>
        simp only [hsh] at h
        replace h : coerceList (coerceValue n s) inner v = .error .outOfFuel := by simpa using h
        have hd := shape_list_depth hsh
        have single : ∀ v' : Json, v' = v → wrapArr (coerceItems (coerceValue n s inner) [v']) = .error .outOfFuel → False := by
          intro v' hv' h'
          subst hv'
          simp only [coerceItems] at h'
          cases hv : coerceValue n s inner v' with
          | ok y => simp [hv, wrapArr] at h'
          | error e' =>
            simp [hv, wrapArr] at h'
            subst h'
            exact ih inner v' (by omega) hv
        cases v with
        | arr xs =>
          simp only [coerceList] at h
          cases hxs : coerceItems (coerceValue n s inner) xs with
          | ok ys => simp [hxs, wrapArr] at h
          | error e' =>
            simp [hxs, wrapArr] at h
            subst h
            obtain ⟨x, hx, hfx⟩ := items_err _ _ _ hxs
            have hsz := size_mem xs x hx
            have hmul := Nat.mul_le_mul_right (maxDepthTypes s.types + 1) hsz
            simp only [Json.size] at hlt
            rw [Nat.add_mul] at hlt
            refine ih inner x ?_ hfx
            generalize x.size * (maxDepthTypes s.types + 1) = A at *
            generalize Json.sizeList xs * (maxDepthTypes s.types + 1) = B at *
            omega
        | null => simp [Json.isNull] at hnull
        | bool b => exact single _ rfl h
        | int z => exact single _ rfl h
        | float t => exact single _ rfl h
        | str x => exact single _ rfl h
        | obj kvs => exact single _ rfl h
      | named name =>
        simp only [hsh] at h
        replace h : coerceNamed (coerceValue n s) s name v = .error .outOfFuel := by simpa using h
        unfold coerceNamed at h
        cases htd : s.typeDef? name with
        | none => simp [htd] at h
        | some td =>
          cases td with
          | output => simp [htd] at h
          | scalar =>
            simp only [htd] at h
            have := (scalar_err name v _ h).1
            cases this
          | «enum» values =>
            simp only [htd] at h
            cases v <;> try (cases h; done)
            next x => have := (ite_err h).2; cases this
          | input fields =>
            simp only [htd] at h
            cases v <;> try (cases h; done)
            next kvs =>
              cases huk : unknownKey fields kvs with
              | true => simp [huk] at h
              | false =>
                simp only [huk] at h
                replace h : wrapObj (coerceDefs (coerceValue n s) kvs fields kvs) = Except.error .outOfFuel := by simpa using h
                cases hr : coerceDefs (coerceValue n s) kvs fields kvs with
                | ok robj => simp [hr, wrapObj] at h
                | error e' =>
                  simp [hr, wrapObj] at h
                  subst h
                  obtain ⟨fd, hfd, hcase⟩ := coerceDefs_err _ kvs fields kvs _ hr
                  rcases hcase with ⟨fv, hg, hf⟩ | ⟨_, _, _, he⟩
                  · have hsz := size_get? kvs fd.name fv hg
                    have hmul := Nat.mul_le_mul_right (maxDepthTypes s.types + 1) hsz
                    have hdep := Nat.le_trans (depth_mem fields fd hfd) (depth_typeDef s name fields htd)
                    simp only [Json.size] at hlt
                    rw [Nat.add_mul] at hlt
                    refine ih fd.ty fv ?_ hf
                    generalize fv.size * (maxDepthTypes s.types + 1) = A at *
                    generalize Json.sizeFields kvs * (maxDepthTypes s.types + 1) = B at *
                    omega
                  · cases he

end Apollo.Coercion
