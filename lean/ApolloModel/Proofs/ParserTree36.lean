import ApolloModel.Proofs.ParserTree35
import ApolloModel.Proofs.ParserComplete30
/-
C08 growth (pipeline), part 36: the recursion-limit guard of a definition of the AST (`definitionFit`) from the guard of
the strict item it came from (`itemFit`): `itemOfDef` inverts `DocItem.strict`.
-/
set_option linter.unusedSimpArgs false
set_option linter.unusedVariables false

namespace Apollo.Parse
open Apollo.Rowan hiding Str
open Apollo.Lex hiding Str

theorem sepOf_sepNames (i : SepC) (h : sepLead i = false) : sepOf (sepNames i) = i := by
  cases i with
  | none => rfl
  | some v =>
    obtain ⟨lead, f, r⟩ := v
    simp only [sepLead] at h
    subst h
    rfl

theorem looseRoots_of_full : ∀ (roots : List (Ast.OpType × Option Ast.Str)) (rs : List (Ast.OpType × Ast.Str)),
    fullRoots roots = some rs → looseRoots rs = roots
  | [], rs, h => by simp [fullRoots] at h; subst h; rfl
  | (op, some nm) :: r, rs, h => by
    simp only [fullRoots, Option.map_eq_some_iff] at h
    obtain ⟨r', hr', e⟩ := h
    subst e
    simp only [looseRoots, List.map_cons]
    rw [show List.map (fun r => (r.1, some r.2)) r' = looseRoots r' from rfl, looseRoots_of_full r r' hr']
  | (_, none) :: _, _, h => by simp [fullRoots] at h

/-- `itemOfDef` inverts `LooseDef.strict` -/
theorem itemOfDef_of_strict (l : LooseDef) (d : Ast.Definition) (h : l.strict = some d) : itemOfDef false d = .loose l := by
  cases l <;> simp only [LooseDef.strict] at h
  case scalar => injection h with h; subst h; rfl
  case object desc nm impl ds fs =>
    split at h
    · cases h
    · next hl => injection h with h; subst h; simp only [itemOfDef, sepOf_sepNames impl (by simpa using hl)]
  case interface desc nm impl ds fs =>
    split at h
    · cases h
    · next hl => injection h with h; subst h; simp only [itemOfDef, sepOf_sepNames impl (by simpa using hl)]
  case union desc nm ds ms =>
    split at h
    · cases h
    · next hl => injection h with h; subst h; simp only [itemOfDef, sepOf_sepNames ms (by simpa using hl)]
  case enum => injection h with h; subst h; rfl
  case input => injection h with h; subst h; rfl
  case directive desc nm args rep lead first rest =>
    split at h
    · cases h
    · next hl =>
      injection h with h; subst h
      have : lead = false := by simpa using hl
      subst this; rfl
  case schema desc ds roots =>
    simp only [Option.map_eq_some_iff] at h
    obtain ⟨rs, hr, e⟩ := h
    subst e
    simp only [itemOfDef, looseRoots_of_full roots rs hr]
  case scalarExt => injection h with h; subst h; rfl
  case objectExt nm impl ds fs =>
    split at h
    · cases h
    · next hl => injection h with h; subst h; simp only [itemOfDef, sepOf_sepNames impl (by simpa using hl)]
  case interfaceExt nm impl ds fs =>
    split at h
    · cases h
    · next hl => injection h with h; subst h; simp only [itemOfDef, sepOf_sepNames impl (by simpa using hl)]
  case unionExt nm ds ms =>
    split at h
    · cases h
    · next hl => injection h with h; subst h; simp only [itemOfDef, sepOf_sepNames ms (by simpa using hl)]
  case enumExt => injection h with h; subst h; rfl
  case inputExt => injection h with h; subst h; rfl
  case schemaExt ds roots =>
    simp only [Option.map_eq_some_iff] at h
    obtain ⟨rs, hr, e⟩ := h
    subst e
    simp only [itemOfDef, looseRoots_of_full roots rs hr]

/-- the guard of the AST definition from the guard of the strict item -/
theorem definitionFit_of_strict_item (rl : Nat) (i : DocItem) (a : Ast.Item) (h : i.strict = some a) (hf : itemFit rl i) :
    definitionFit rl a.2 := by
  cases i with
  | exec oe d =>
    simp only [DocItem.strict, Option.some.injEq] at h
    subst h
    have hf' : execFit rl d := hf
    cases d <;> first | exact hf' | exact absurd hf' (by simp [execFit])
  | loose l =>
    simp only [DocItem.strict, Option.map_eq_some_iff] at h
    obtain ⟨d, hd, rfl⟩ := h
    show itemFit rl (itemOfDef false d)
    rw [itemOfDef_of_strict l d hd]
    exact hf

theorem definitionFit_of_strict_items (rl : Nat) : ∀ (its : List DocItem) (items : List Ast.Item), strictItems its = some items →
    (∀ i ∈ its, itemFit rl i) → ∀ x ∈ items.map (·.2), definitionFit rl x
  | [], items, h, _ => by
    simp only [strictItems, Option.some.injEq] at h
    subst h
    intro x hx; cases hx
  | i :: r, items, h, hf => by
    simp only [strictItems] at h
    cases hi : i.strict with
    | none => rw [hi] at h; simp at h
    | some a =>
      cases hr : strictItems r with
      | none => rw [hi, hr] at h; simp at h
      | some b =>
        rw [hi, hr] at h
        simp only [Option.some.injEq] at h
        subst h
        intro x hx
        simp only [List.map_cons, List.mem_cons] at hx
        rcases hx with rfl | hx
        · exact definitionFit_of_strict_item rl i a hi (hf i List.mem_cons_self)
        · exact definitionFit_of_strict_items rl r b hr (fun j hj => hf j (List.mem_cons_of_mem _ hj)) x hx

end Apollo.Parse
