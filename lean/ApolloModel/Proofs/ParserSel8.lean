import ApolloModel.Proofs.ParserSel7
import ApolloModel.Proofs.ParserDef9
/-
C05 / C07 growth (executable definitions), part 8: variable definitions, operation definition, fragment
definition, in builderD's acceptance calculus `Acc`.
-/
set_option linter.unusedSimpArgs false
namespace Apollo.Parse
open Apollo.Rowan hiding Str
open Apollo.Lex hiding Str

/-! ### bridges -/

theorem acc_of_cons {E : PState → Prop} {H : List Tok → Prop} (m : PI Unit) (gm : Good m) (P : List Ast.Tok → Prop)
    (h : ∀ s s', TW s → EofEnd s → H (Toks s) → m.run s = .ok () s' → ¬ Doomed s' → Cons s s' P) :
    Acc E H m (fun _ => P) := by
  refine ⟨gm, ?_⟩
  intro s a s' w he hq hr hnd
  obtain ⟨cs, x, a1, a2, a3, a4, a5⟩ := h s s' w he hq hr hnd
  exact ⟨cs, a1, a2, a3, Or.inl ⟨x, a4, a5⟩⟩

theorem kindP_head {p : Kind → Bool} {q : List Tok} (h : KindP p q) : ∃ t, q = t :: q.tail ∧ p t.kind = true := by
  obtain ⟨t, hh, hp⟩ := h
  cases q with
  | nil => cases hh
  | cons a b => simp only [List.head?_cons, Option.some.injEq] at hh; subst hh; exact ⟨a, rfl, hp⟩

/-- `{ Selection+ }` -/
theorem acc_selectionSet {E : PState → Prop} (n : Nat) :
    Acc E (KindP (· == .lCurly)) (selectionSet n) (fun _ x => ∃ ss, ss ≠ Ast.Sels.nil ∧ x = Ast.tSelSet ss) := by
  refine acc_of_cons _ (goodSel n).selSet _ ?_
  intro s s' w he hq hr hnd
  obtain ⟨t, ht, hk⟩ := kindP_head hq
  have := (sel_all_sound n).1 s s' t _ w he ht (by simpa using hk) hr hnd
  exact this.weaken (by rintro x ⟨ss, hne, rfl⟩; exact ⟨ss, hne, rfl⟩)

/-- a node whose caller has not looked at the queue: ignored tokens in front are skipped by `start_node` -/
theorem acc_withNode_any {α : Type} {E : PState → Prop} (hE : Early E) {H : List Tok → Prop} (K : SK) {body : PI α}
    {R : α → List Ast.Tok → Prop} (h : Acc E (fun _ => True) body R) : Acc E H (withNode K body) R := by
  refine ⟨good_withNode K body h.1, ?_⟩
  intro s a s' w he _ hr hnd
  obtain ⟨s0, s2, o0, hr2, o2⟩ := withNode_dec K body s s' a hr
  obtain ⟨_, s1, hs, hb⟩ := bind_dec skipIgnored _ s0 s2 a hr2
  obtain ⟨ign, e, hall, _⟩ := skipIgnored_spec s0 s1 (o0.w w) hs
  have e01 : Eat s s1 ign := by simpa using (Eat.ofObsEq o0 w).trans e
  have he1 : EofEnd s1 := eofEnd_eat he e01 (noEof_ignored ign hall)
  have hnd2 : ¬ Doomed s2 := fun d => hnd (o2.doomed.mpr d)
  obtain ⟨cs, a1, a2, a3, a4⟩ := h.2 s1 a s2 e01.w he1 trivial hb hnd2
  refine ⟨ign ++ cs, by rw [e01.toks, a1, o2.toks, List.append_assoc], noEof_append (noEof_ignored ign hall) a2,
    eofEnd_same _ _ a3 o2.current o2.lx o2.errors, ?_⟩
  rcases a4 with ⟨x, hx, hR⟩ | h4
  · exact Or.inl ⟨x, by rw [sig_append, sig_ignored ign hall]; exact hx, hR⟩
  · exact Or.inr (hE.toks s2 s' o2.toks h4)

/-- a Name token known to be at the head -/
theorem acc_nameAt {E : PState → Prop} (t : Tok) (hk : t.kind = .name) :
    Acc E (fun q => q.head? = some t) name (fun _ x => x = [.name t.data]) := by
  refine acc_of_cons _ good_name _ ?_
  intro s s' w he hq hr _
  obtain ⟨ign, e, hall, _⟩ := name_settled s s' t _ w (toks_head_cons s t hq) hk hr
  exact cons_of_name e he hk hall

/-- `FragmentName`: a Name other than `on` -/
theorem acc_fragmentName {E : PState → Prop} (hE : Early E) {H : List Tok → Prop} :
    Acc E H fragmentName (fun _ x => ∃ nm, nm ≠ sOnP ∧ x = [.name nm]) := by
  unfold fragmentName
  refine acc_withNode_any hE _ ?_
  apply acc_peekToken
  intro o
  cases o with
  | none => exact acc_err
  | some t =>
    simp only []
    apply acc_ite
    · intro _; exact acc_err
    · intro hon
      apply acc_ite
      · intro hkn
        have hk : t.kind = .name := by simpa using hkn
        refine (acc_nameAt t hk).mono (fun q hq => hq.2) ?_
        rintro _ x rfl
        refine ⟨t.data, ?_, rfl⟩
        intro hd
        simp [hk, kw, hd, sOnP] at hon
      · intro _; exact acc_err

/-- `on NamedType` -/
theorem acc_typeCondition {E : PState → Prop} (hE : Early E) {H : List Tok → Prop} :
    Acc E H typeCondition (fun _ x => ∃ ty, x = [.name sOnP, .name ty]) := by
  unfold typeCondition
  refine acc_withNode_any hE _ ?_
  apply acc_peekToken
  intro o
  cases o with
  | none => exact acc_err
  | some t =>
    simp only []
    have hnt : Acc E (fun _ => True) (peek >>= fun k => if k == some Kind.name then namedType else err)
        (fun _ x => ∃ ty, x = [.name ty]) :=
      acc_ifKind .name _ _ _ (acc_of_cons _ good_namedType _ (by
        intro s s' w he hq hr _
        obtain ⟨t2, ht2, hk2⟩ := kindP_head hq
        exact (namedType_sound s s' t2 _ w he ht2 (by simpa using hk2) hr).weaken (by rintro x rfl; exact ⟨t2.data, rfl⟩))) acc_err
    by_cases hon : (t.kind == .name && kw "on" t.data) = true
    · simp only [hon, if_true]
      have hk : t.kind = .name := by simp only [Bool.and_eq_true] at hon; simpa using hon.1
      have hd : t.data = sOnP := by simp only [Bool.and_eq_true] at hon; exact kw_eq hon.2
      have hb : Acc E (fun q => (True ∧ q.head? = some t)) (bump "on_KW") (fun _ x => x = [.name sOnP]) := by
        refine (acc_bump "on_KW" (fun t' => t' = t) (fun x => x = [.name sOnP]) ?_).mono ?_ (fun _ _ h => h)
        · rintro t' rfl
          exact ⟨by rw [hk]; rfl, by rw [hk]; decide, .name sOnP, by simp [astOfV, hk, hd], rfl⟩
        · intro q hq; exact ⟨t, hq.2, rfl⟩
      refine (acc_bind hE hb (fun _ => hnt)).mono (fun _ h => h) ?_
      rintro _ x ⟨_, x1, x2, e, h1, ty, h2⟩
      exact ⟨ty, by rw [e, h1, h2]; rfl⟩
    · simp only [hon, Bool.false_eq_true, if_false]
      exact acc_err' _ hnt.1

end Apollo.Parse
