import ApolloModel.Model.Proto
import ApolloModel.Model.SchemaBuild
import ApolloModel.Model.SchemaNames
import ApolloModel.Model.ValueCheck
open Apollo Apollo.Proto
namespace Driver.D14b

/-
streams of property C14, growth 3 (written by harness/src/p14.rs)
  c14.build     <definitions>                         ↦ E[<build diagnostics, sorted>]N[<names of empty types, sorted>]
  c14.reserved  <directive definitions> <types>       ↦ sorted `site:name` of the ReservedName diagnostics
  c14.values    <type environment> <type> <value>     ↦ sorted diagnostic kinds of `value_of_correct_type`
-/

def sortStrs (l : List String) : List String := l.mergeSort (fun a b => decide (a ≤ b))

def splitNE (s : String) (sep : String) : List String := (s.splitOn sep).filter (· ≠ "")

/-! ### c14.build -/
section Build
open Apollo.SchemaBuild

def kindOfChar : Char → Option Kind
  | 's' => some .scalar | 'o' => some .object | 'i' => some .interface
  | 'u' => some .union | 'e' => some .enum | 'n' => some .inputObject
  | _ => none

def tagOf (s : String) : Option DefTag :=
  match s.toList with
  | ['S'] => some .schemaDef
  | ['X'] => some .schemaExt
  | ['D'] => some .directiveDef
  | ['O'] => some .operation
  | ['F'] => some .fragment
  | ['T', c] => (kindOfChar c).map .typeDef
  | ['E', c] => (kindOfChar c).map .typeExt
  | _ => none

/-- positions only order the diagnostics; the stream compares them as a multiset, so the running index of
    the definition (×100, plus the index of the item) is as good as a byte offset -/
def itemsAt (base : Nat) (names : List String) : List Item :=
  (List.range names.length).zip names |>.map fun (i, n) => ⟨n, base + i, base + i, ""⟩

def defOf (idx : Nat) (s : String) : Option Def :=
  match s.splitOn "," with
  | [t, n, is, ms] => do
    let t ← tagOf t
    let base := idx * 100
    pure ⟨t, n, base, base + 1, [], itemsAt (base + 2) (splitNE is "+"), itemsAt (base + 40) (splitNE ms "+")⟩
  | _ => none

def diagStr : Diag → String
  | .executableDefinition _ => "exec"
  | .schemaDefinitionCollision => "schemacoll"
  | .directiveDefinitionCollision n => "dircoll(" ++ n ++ ")"
  | .typeDefinitionCollision n => "typecoll(" ++ n ++ ")"
  | .builtInScalarTypeRedefinition => "builtinscalar"
  | .orphanSchemaExtension => "orphanschema"
  | .orphanTypeExtension n => "orphantype(" ++ n ++ ")"
  | .typeExtensionKindMismatch n _ _ => "mismatch(" ++ n ++ ")"
  | .duplicateRootOperation op => "duproot(" ++ op ++ ")"
  | .duplicateInterface _ t i => "dupiface(" ++ t ++ "," ++ i ++ ")"
  | .memberCollision _ t m => "dupmember(" ++ t ++ "," ++ m ++ ")"

def buildCase (defs : String) : String :=
  let parts := splitNE defs ";"
  match ((List.range parts.length).zip parts).mapM (fun (i, s) => defOf i s) with
  | none => "bad-case"
  | some ds =>
    let r := build (Builder.new false false) [ds]
    let diags := sortStrs (r.errors.map fun e => diagStr e.diag)
    let empty := if r.errors.isEmpty then sortStrs ((SchemaNames.emptyTypeDiags r.types).map (·.1)) else []
    "E[" ++ " ".intercalate diags ++ "]N[" ++ " ".intercalate empty ++ "]"
end Build

/-! ### c14.reserved -/
section Reserved
open Apollo.SchemaNames

/-- `<flag><name>` -/
def nameOf (s : String) : N :=
  match s.toList with
  | '1' :: cs => ⟨cs, true⟩
  | _ :: cs => ⟨cs, false⟩
  | [] => ⟨[], false⟩

def dirOf (s : String) : DirNames :=
  match s.splitOn "/" with
  | [n, as] => ⟨nameOf n, (splitNE as "+").map nameOf⟩
  | _ => ⟨nameOf s, []⟩

def fieldOf (s : String) : FieldNames :=
  match s.splitOn "~" with
  | [n, as] => ⟨nameOf n, (splitNE as "^").map nameOf⟩
  | _ => ⟨nameOf s, []⟩

def membersOf (s : String) : Members :=
  match s.toList with
  | 'f' :: rest => .fields ((splitNE (String.ofList rest) "+").map fieldOf)
  | 'v' :: rest => .values ((splitNE (String.ofList rest) "+").map nameOf)
  | 'i' :: rest => .inputFields ((splitNE (String.ofList rest) "+").map nameOf)
  | _ => .none

def typeOf (s : String) : TypeNames :=
  match s.splitOn "/" with
  | [n, m] => ⟨nameOf n, membersOf m⟩
  | _ => ⟨nameOf s, .none⟩

def siteStr : Site → String
  | .type => "type" | .directive => "directive" | .field => "field" | .argument => "argument"
  | .enumValue => "enumValue" | .inputField => "inputField"

def reservedCase (dirs types : String) : String :=
  let s : SchemaNames := ⟨(splitNE dirs ";").map dirOf, (splitNE types ";").map typeOf⟩
  let ds := sortStrs ((reservedDiags s).map fun p => siteStr p.1 ++ ":" ++ String.ofList p.2)
  if ds.isEmpty then "ok" else ",".intercalate ds
end Reserved

/-! ### c14.values -/
section Values
open Apollo.ValueCheck

/-- `N name` | `M name` (non-null) | `L ty` | `K ty` (non-null list), as a token list -/
def parseTy : Nat → List String → Option (Ty × List String)
  | 0, _ => none
  | _ + 1, "N" :: n :: rest => some (.named n, rest)
  | _ + 1, "M" :: n :: rest => some (.nonNullNamed n, rest)
  | fuel + 1, "L" :: rest => (parseTy fuel rest).map fun (t, r) => (.list t, r)
  | fuel + 1, "K" :: rest => (parseTy fuel rest).map fun (t, r) => (.nonNullList t, r)
  | _, _ => none

def tyOf (s : String) : Option Ty :=
  let toks := splitNE s " "
  match parseTy (toks.length + 1) toks with
  | some (t, []) => some t
  | _ => none

mutual
def parseValue : Nat → List String → Option (Value × List String)
  | 0, _ => none
  | _ + 1, "i" :: n :: rest => n.toInt?.map fun i => (.int i, rest)
  | _ + 1, "f" :: b :: rest => some (.float (b == "1"), rest)
  | _ + 1, "s" :: rest => some (.string, rest)
  | _ + 1, "b" :: rest => some (.boolean, rest)
  | _ + 1, "n" :: rest => some (.null, rest)
  | _ + 1, "e" :: n :: rest => some (.enum n, rest)
  | _ + 1, "v" :: n :: rest => some (.variable n, rest)
  | fuel + 1, "l" :: k :: rest => do
    let k ← k.toNat?
    let (vs, r) ← parseValues fuel k rest
    pure (.list vs, r)
  | fuel + 1, "o" :: k :: rest => do
    let k ← k.toNat?
    let (fs, r) ← parseFields fuel k rest
    pure (.object fs, r)
  | _, _ => none
def parseValues : Nat → Nat → List String → Option (Values × List String)
  | 0, _, _ => none
  | _ + 1, 0, toks => some (.nil, toks)
  | fuel + 1, k + 1, toks => do
    let (v, r) ← parseValue fuel toks
    let (vs, r') ← parseValues fuel k r
    pure (.cons v vs, r')
def parseFields : Nat → Nat → List String → Option (Fields × List String)
  | 0, _, _ => none
  | _ + 1, 0, toks => some (.nil, toks)
  | fuel + 1, k + 1, n :: toks => do
    let (v, r) ← parseValue fuel toks
    let (fs, r') ← parseFields fuel k r
    pure (.cons n v fs, r')
  | _, _, _ => none
end

def valueOf (s : String) : Option Value :=
  let toks := splitNE s " "
  match parseValue (2 * toks.length + 2) toks with
  | some (v, []) => some v
  | _ => none

/-- `fname/<type tokens>/<0|1 has default>` -/
def inFieldOf (s : String) : Option InField :=
  match s.splitOn "/" with
  | [n, t, d] => (tyOf t).map fun t => ⟨n, t, d == "1"⟩
  | _ => none

/-- `name=S0` `name=S1` `name=E:A+B` `name=I:field+field` `name=O` -/
def typeDefOf (s : String) : Option (Name × TypeDef) :=
  match s.splitOn "=" with
  | [n, d] =>
    match d.toList with
    | ['S', '0'] => some (n, .scalar false)
    | ['S', '1'] => some (n, .scalar true)
    | ['O'] => some (n, .other)
    | 'E' :: ':' :: rest => some (n, .enum (splitNE (String.ofList rest) "+"))
    | 'I' :: ':' :: rest => ((splitNE (String.ofList rest) "+").mapM inFieldOf).map fun fs => (n, .input fs)
    | _ => none
  | _ => none

def diagName : Diag → String
  | .unsupportedValueType => "UnsupportedValueType"
  | .intCoercionError => "IntCoercionError"
  | .floatCoercionError => "FloatCoercionError"
  | .undefinedEnumValue => "UndefinedEnumValue"
  | .undefinedVariable => "UndefinedVariable"
  | .uniqueInputValue => "UniqueInputValue"
  | .undefinedInputValue => "UndefinedInputValue"
  | .requiredField => "RequiredField"

def valuesCase (env ty v : String) : String :=
  match (splitNE env ";").mapM typeDefOf, tyOf ty, valueOf v with
  | some types, some ty, some v =>
    let ds := sortStrs ((check ⟨types⟩ [] ty v).map diagName)
    if ds.isEmpty then "ok" else ",".intercalate ds
  | _, _, _ => "bad-case"
end Values

def c14b (stream : String) (fs : List String) : String :=
  match stream, fs with
  | "c14.build", [defs] => buildCase defs
  | "c14.reserved", [dirs, types] => reservedCase dirs types
  | "c14.values", [env, ty, v] => valuesCase env ty v
  | _, _ => "bad-case"

end Driver.D14b
