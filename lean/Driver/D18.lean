import ApolloModel.Model.Proto
import ApolloModel.Model.TypedDoc
import Driver.D20
import Driver.D17
import ApolloModel.Model.TypedVars
open Apollo Apollo.Proto Apollo.Standalone Apollo.Typed
namespace Driver

/-! schema tables written by harness/src/p18.rs: `R q m s`, `T name kind nfields (fname defid innerTy)*` -/

def pFieldDef (ts : Toks) : Option ((Standalone.Name × FDef) × Toks) := do
  let (n, ts) ← pNat ts
  let (i, ts) ← pNat ts
  let (t, ts) ← pNat ts
  pure ((n, { id := i, ty := t }), ts)

partial def pTSchema (acc : TSchema) : Toks → Option TSchema
  | [] => some acc
  | "R" :: ts => do
    let (q, ts) ← pOptNat ts
    let (m, ts) ← pOptNat ts
    let (s, ts) ← pOptNat ts
    pTSchema { acc with query := q, mutation := m, subscription := s } ts
  | "T" :: n :: k :: ts => do
    let n ← n.toNat?
    let k ← (match k with
      | "o" => some TKind.object | "i" => some .interface | "u" => some .union
      | "s" => some .scalar | "e" => some .enum | "n" => some .inputObject | _ => none)
    let (fs, ts) ← pCounted pFieldDef ts
    pTSchema { acc with types := acc.types ++ [{ name := n, kind := k, fields := fs }] } ts
  | _ => none

/-- streams of property C18 are named `c18.<name>` -/
def c18 (stream : String) (fs : List String) : String :=
  match stream, fs with
  | "c18.typed", [schema, doc] =>
    match pTSchema { types := [], query := none, mutation := none, subscription := none } (toks schema), pDefs (toks doc) with
    | some s, some ast => dumpDoc (buildDocT s ast)
    | _, _ => "bad-case"
  | "c18.opvars", [schema, doc] =>
    -- per operation of the built document (anonymous first, then named): the variables written in the arguments and
    -- directives of the fields `all_fields` yields, sorted, without repetition
    let st := ((String.ofList (decodeField schema)).splitOn " ").filter (· ≠ "")
    let dt := ((String.ofList (decodeField doc)).splitOn " ").filter (· ≠ "")
    match Fam.schema st, Fam.rdefs (dt.length + 2) dt with
    | some s, some ast =>
      let built := Apollo.ExecRules.build s ast
      ";".intercalate (built.ops.map fun o =>
        let vs := ((Apollo.ExecRules.opFieldVars built o).mergeSort (fun a b => decide (a ≤ b))).eraseDups
        (o.name.getD "-") ++ ":" ++ ",".intercalate vs)
    | _, _ => "bad-case"
  | _, _ => "unknown-stream"

end Driver
