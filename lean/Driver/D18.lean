import ApolloModel.Model.Proto
open Apollo Apollo.Proto
namespace Driver

/-- streams of property C18 are named `c18.<name>` -/
def c18 (_stream : String) (_fs : List String) : String := "unknown-stream"

end Driver
