import ApolloModel.Model.Proto
import ApolloModel.Model.NameHeap
open Apollo Apollo.Proto
namespace Driver
namespace C30

/-- `97.98.99` → `abc`; the empty field is the empty text -/
def decText (s : String) : List Char :=
  if s.isEmpty then [] else (s.splitOn ".").filterMap fun x => x.toNat?.map Char.ofNat

def encText (t : List Char) : String := ".".intercalate (t.map fun c => toString c.toNat)

def nat (s : String) : Nat := s.toNat?.getD 0

open Apollo.NameHeap in
def decNameOp (f : String) : Option Op :=
  match f.splitOn "," with
  | ["nn", d, t] => some (.newName (nat d) (decText t))
  | ["nc", d, t] => some (.newChecked (nat d) (decText t))
  | ["ns", d, t] => some (.newStatic (nat d) (decText t))
  | ["na", d, t] => some (.newArc (nat d) (decText t))
  | ["fa", d, s] => some (.fromArc (nat d) (nat s))
  | ["tf", d, s] => some (.tryFromArc (nat d) (nat s))
  | ["cl", d, s] => some (.clone (nat d) (nat s))
  | ["dr", s] => some (.drop (nat s))
  | ["wl", s, fid, st, len] => some (.withLocation (nat s) (nat fid) (nat st) (nat len))
  | ["tc", d, s] => some (.toClonedArc (nat d) (nat s))
  | ["ia", d, s] => some (.intoArc (nat d) (nat s))
  | _ => none

open Apollo.NameHeap in
def resStr : Res → String
  | .ok => "ok" | .skip => "skip" | .none => "none" | .err => "err" | .panic => "PANIC"

def locStr : Option (Nat × Nat × Nat) → String
  | some (f, s, l) => s!"{f}:{s}:{l}"
  | none => "~"

open Apollo.NameHeap Apollo.Rc in
def slotStr (st : St) : Slot → String
  | .empty => "-"
  | .name n =>
    let text := match n.read st.heap with
      | some t => encText t
      | none => "UAF"
    let cnt := match n.ptr with
      | .heap c => toString (st.heap.strongOf c)
      | .static _ => "_"
    s!"N{text}/{locStr n.location}/{if n.isStatic then "S" else "H"}/{cnt}"
  | .arc c _ =>
    let text := match st.heap.read c with
      | some t => encText t
      | none => "UAF"
    s!"A{text}/{st.heap.strongOf c}"

open Apollo.NameHeap in
def obsName (st : St) (r : Res) : String :=
  resStr r ++ String.join (st.slots.map fun s => ";" ++ slotStr st s) ++
    (if st.heap.uaf + st.heap.dfree + st.confused = 0 then "" else s!";GHOST{st.heap.uaf},{st.heap.dfree},{st.confused}")

open Apollo.NameHeap in
def runName (st : St) (acc : List String) : List Op → List String
  | [] => acc.reverse
  | op :: rest =>
    let r := step st op
    runName r.1 (obsName r.1 r.2 :: acc) rest

open Apollo.NodeHeap in
def decNodeOp (f : String) : Option Op :=
  match f.splitOn "," with
  | ["nw", d, v, fid, st, len] =>
    some (.new (nat d) (nat v) (if nat fid == 0 then none else some (nat fid, nat st, nat len)))
  | ["cl", d, s] => some (.clone (nat d) (nat s))
  | ["dr", s] => some (.drop (nat s))
  | ["mm", s, v] => some (.makeMut (nat s) (nat v))
  | ["gm", s, v] => some (.getMut (nat s) (nat v))
  | ["sl", d, s, v] => some (.sameLocation (nat d) (nat s) (nat v))
  | _ => none

open Apollo.NodeHeap in
def nresStr : Res → String
  | .ok => "ok" | .skip => "skip" | .none => "none" | .cloned => "cloned"

/-- index of the first slot that holds the same cell (`ptr_eq` class representative) -/
def firstIdx (slots : List (Option Nat)) (c : Nat) : Nat := slots.findIdx (· == some c)

open Apollo.NodeHeap Apollo.Rc in
def obsNode (st : St) (r : Res) : String :=
  nresStr r ++ String.join (st.slots.map fun s =>
    match s with
    | none => ";-"
    | some c =>
      match st.heap.read c with
      | some x => s!";{x.val}/{locStr x.loc}/{firstIdx st.slots c}/{if st.heap.strongOf c == 1 then "u" else "s"}"
      | none => ";UAF") ++ s!";#{st.heap.liveCells}" ++
    (if st.heap.uaf + st.heap.dfree = 0 then "" else s!";GHOST{st.heap.uaf},{st.heap.dfree}")

open Apollo.NodeHeap in
def runNode (st : St) (acc : List String) : List Op → List String
  | [] => acc.reverse
  | op :: rest =>
    let r := step st op
    runNode r.1 (obsNode r.1 r.2 :: acc) rest

end C30

/-- streams of property C30: `c30.name` and `c30.node`; fields = pool size, then one field per operation -/
def c30 (stream : String) (fs : List String) : String :=
  match stream, fs with
  | "c30.name", pool :: ops =>
    let ops := ops.map C30.decNameOp
    if ops.any Option.isNone then "bad-case"
    else "|".intercalate (C30.runName (NameHeap.init (C30.nat pool)) [] (ops.filterMap id))
  | "c30.node", pool :: ops =>
    let ops := ops.map C30.decNodeOp
    if ops.any Option.isNone then "bad-case"
    else "|".intercalate (C30.runNode (NodeHeap.init (C30.nat pool)) [] (ops.filterMap id))
  | _, _ => "unknown-stream"

end Driver
