import ApolloModel.Model.Proto
open Apollo Apollo.Proto
namespace Driver

/-- streams of property C30 are named `c30.<name>` -/
def c30 (_stream : String) (_fs : List String) : String := "unknown-stream"

end Driver
