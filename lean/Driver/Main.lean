import Driver.D03
import Driver.D10
import Driver.D23
import Driver.D25
import Driver.D29
import Driver.D31
import Driver.DParse
import Driver.DStr
import Driver.DLc
import Driver.DScalars
import Driver.D21
import Driver.D22
/-
`model`: reads one case per line (`stream<TAB>field…`), prints the model's canonical answer.
Imports model files only (no Mathlib), so it links as a native executable.
-/
open Driver

def dispatch (line : String) : String :=
  match line.splitOn "\t" with
  | [] => "bad-case"
  | stream :: fs =>
    if stream ∈ ["assignable", "usage", "implfield"] then c29 stream fs
    else if stream ∈ ["coord", "lookup"] then c23 stream fs
    else if stream ∈ ["pack", "alloc"] then c31 stream fs
    else if stream ∈ ["maxdepth"] then c25 stream fs
    else if stream ∈ ["lit", "i32", "f64fix", "typrint"] then c10 stream fs
    else if stream ∈ ["lex", "lexlim"] then c03 stream fs
    else if stream ∈ ["parse"] then cParse stream fs
    else if stream ∈ ["strdecode", "strser"] then cStr stream fs
    else if stream ∈ ["linecol"] then cLc stream fs
    else if stream ∈ ["scalars"] then cScalars stream fs
    else if stream ∈ ["guard", "sort", "fragcycle"] then c21 stream fs
    else if stream ∈ ["unusedvars"] then c22 stream fs
    else "unknown-stream"

partial def loop (h : IO.FS.Stream) (out : IO.FS.Stream) : IO Unit := do
  let line ← h.getLine
  if line.isEmpty then return ()
  let line := if line.endsWith "\n" then (line.dropEnd 1).toString else line
  out.putStrLn (dispatch line)
  loop h out

def main : IO Unit := do
  let stdin ← IO.getStdin
  let stdout ← IO.getStdout
  loop stdin stdout
