import Driver.D03
import Driver.D10
import Driver.D23
import Driver.D25
import Driver.D29
import Driver.D31
import Driver.DParse
import Driver.DStr
import Driver.DLc
import Driver.DScalars
import Driver.D21
import Driver.D22
import Driver.D08
import Driver.DFromCst
import Driver.D12
import Driver.D13
import Driver.D14
import Driver.D15
import Driver.D17
import Driver.D18
import Driver.D19
import Driver.D20
import Driver.D24
import Driver.D26
import Driver.D27
import Driver.D28
import Driver.D30
import Driver.D32
import Driver.D33
/-
`model`: reads one case per line (`stream<TAB>field…`), prints the model's canonical answer.
Imports model files only (no Mathlib), so it links as a native executable.
-/
open Driver

def dispatch (line : String) : String :=
  match line.splitOn "\t" with
  | [] => "bad-case"
  | stream :: fs =>
    if stream ∈ ["assignable", "usage", "implfield"] then c29 stream fs
    else if stream ∈ ["coord", "lookup"] then c23 stream fs
    else if stream ∈ ["pack", "alloc"] then c31 stream fs
    else if stream ∈ ["maxdepth"] then c25 stream fs
    else if stream ∈ ["lit", "i32", "f64fix", "typrint", "typert", "i32parse"] then c10 stream fs
    else if stream ∈ ["lex", "lexlim"] then c03 stream fs
    else if stream ∈ ["parse"] then cParse stream fs
    else if stream ∈ ["strdecode", "strser"] then cStr stream fs
    else if stream ∈ ["linecol", "c11.ranges"] then cLc stream fs
    else if stream ∈ ["scalars"] then cScalars stream fs
    else if stream ∈ ["guard", "sort", "fragcycle", "inputguard", "dirguard"] then c21 stream fs
    else if stream ∈ ["unusedvars", "restore"] then c22 stream fs
    else if stream == "c08.fromcst" then cFromCst stream fs
    else if stream.startsWith "c08." then c08 stream fs
    else if stream.startsWith "c12." then c12 stream fs
    else if stream.startsWith "c13." then c13 stream fs
    else if stream.startsWith "c14." then c14 stream fs
    else if stream.startsWith "c15." then c15 stream fs
    else if stream.startsWith "c17." then c17 stream fs
    else if stream.startsWith "c18." then c18 stream fs
    else if stream.startsWith "c19." then c19 stream fs
    else if stream.startsWith "c20." then c20 stream fs
    else if stream.startsWith "c24." then c24 stream fs
    else if stream.startsWith "c26." then c26 stream fs
    else if stream.startsWith "c27." then c27 stream fs
    else if stream.startsWith "c28." then c28 stream fs
    else if stream.startsWith "c30." then c30 stream fs
    else if stream.startsWith "c32." then c32 stream fs
    else if stream.startsWith "c33." then c33 stream fs
    else "unknown-stream"

partial def loop (h : IO.FS.Stream) (out : IO.FS.Stream) : IO Unit := do
  let line ← h.getLine
  if line.isEmpty then return ()
  let line := if line.endsWith "\n" then (line.dropEnd 1).toString else line
  out.putStrLn (dispatch line)
  loop h out

def main : IO Unit := do
  let stdin ← IO.getStdin
  let stdout ← IO.getStdout
  loop stdin stdout
