import ApolloModel.Model.Proto
import ApolloModel.Model.SchemaBuild
open Apollo Apollo.Proto Apollo.SchemaBuild
namespace Driver

/-
streams of property C13 (written by harness/src/p13.rs)
  c13.schema  <flags: two chars 0/1 = adopt_orphan_extensions, ignore_builtin_redefinitions>  <sources>
  c13.exec    <sources>
sources: `|` between sources, `;` between definitions, `,` between the fields of a definition,
`+` between list items, `:` between the fields of an item.
-/

def kindOfChar : Char → Option Kind
  | 's' => some .scalar | 'o' => some .object | 'i' => some .interface
  | 'u' => some .union | 'e' => some .enum | 'n' => some .inputObject
  | _ => none

def kindChar : Kind → String
  | .scalar => "s" | .object => "o" | .interface => "i" | .union => "u" | .enum => "e" | .inputObject => "n"

def tagOf (s : String) : Option DefTag :=
  match s.toList with
  | ['S'] => some .schemaDef
  | ['X'] => some .schemaExt
  | ['D'] => some .directiveDef
  | ['O'] => some .operation
  | ['F'] => some .fragment
  | ['T', c] => (kindOfChar c).map .typeDef
  | ['E', c] => (kindOfChar c).map .typeExt
  | _ => none

def splitNE (s : String) (sep : String) : List String := (s.splitOn sep).filter (· ≠ "")

def itemOf (s : String) : Option Item :=
  match s.splitOn ":" with
  | [n, p, e, t] => do
    let p ← p.toNat?
    let e ← e.toNat?
    pure ⟨n, p, e, t⟩
  | _ => none

def itemsOf (s : String) : Option (List Item) := (splitNE s "+").mapM itemOf

def defOf (s : String) : Option Def :=
  match s.splitOn "," with
  | [t, n, p, np, ds, is, ms] => do
    let t ← tagOf t
    let p ← p.toNat?
    let np ← np.toNat?
    let ds ← itemsOf ds
    let is ← itemsOf is
    let ms ← itemsOf ms
    pure ⟨t, n, p, np, ds, is, ms⟩
  | _ => none

def sourcesOf (s : String) : Option (List (List Def)) :=
  (s.splitOn "|").mapM (fun src => (splitNE src ";").mapM defOf)

def posStr : Option Pos → String
  | none => "-"
  | some p => toString p

def originStr : Option Pos → String
  | none => "d"
  | some p => toString p

def compStr (c : Comp) : String :=
  (if c.target.isEmpty then c.name else c.name ++ "=" ++ c.target) ++ "@" ++ posStr c.pos ++ "^" ++ originStr c.origin

def compsStr (cs : List Comp) : String := ",".intercalate (cs.map compStr)

def bodyEmpty (b : Body) : Bool := b.directives.isEmpty && b.interfaces.isEmpty && b.members.isEmpty

def typeStr (t : TypeEntry) : String :=
  t.name ++ "/" ++ kindChar t.kind ++ "/" ++ posStr t.pos ++ "{d:" ++ compsStr t.body.directives ++ "}{i:"
    ++ compsStr t.body.interfaces ++ "}{m:" ++ compsStr t.body.members ++ "}"

def rootStr (sd : SchemaDefn) (op : String) : String :=
  match sd.body.members.find? (fun c => c.name == op) with
  | some c => c.target ++ "@" ++ posStr c.pos ++ "^" ++ originStr c.origin
  | none => "-"

def diagStr : Diag → String
  | .executableDefinition f => if f then "exec1" else "exec0"
  | .schemaDefinitionCollision => "schemacoll"
  | .directiveDefinitionCollision n => "dircoll(" ++ n ++ ")"
  | .typeDefinitionCollision n => "typecoll(" ++ n ++ ")"
  | .builtInScalarTypeRedefinition => "builtinscalar"
  | .orphanSchemaExtension => "orphanschema"
  | .orphanTypeExtension n => "orphantype(" ++ n ++ ")"
  | .typeExtensionKindMismatch n e d => "mismatch(" ++ n ++ "," ++ kindChar e ++ "," ++ kindChar d ++ ")"
  | .duplicateRootOperation op => "duproot(" ++ op ++ ")"
  | .duplicateInterface k t i => "dupiface(" ++ kindChar k ++ "," ++ t ++ "," ++ i ++ ")"
  | .memberCollision k t m => "dupmember(" ++ kindChar k ++ "," ++ t ++ "," ++ m ++ ")"

def builderStr (r : Builder) : String :=
  let ts := r.types.filter (fun t => !(t.builtin && bodyEmpty t.body))
  "T[" ++ " ".intercalate (ts.map typeStr) ++ "]S[" ++ posStr r.schemaDef.pos ++ "{d:" ++ compsStr r.schemaDef.body.directives
    ++ "}{q:" ++ rootStr r.schemaDef "query" ++ "}{m:" ++ rootStr r.schemaDef "mutation" ++ "}{s:"
    ++ rootStr r.schemaDef "subscription" ++ "}]D["
    ++ ",".intercalate ((r.directiveDefs.filter (fun d => !d.builtin)).map (fun d => d.name ++ "@" ++ posStr d.pos))
    ++ "]E[" ++ ",".intercalate (r.errors.map (fun e => toString e.pos ++ ":" ++ diagStr e.diag)) ++ "]"

def xdefOf (s : String) : Option XDef :=
  match s.splitOn "," with
  | [t, n, p, np, cp, ro, co, inner] => do
    let t ← (match t with
      | "O" => some DefTag.operation
      | "F" => some DefTag.fragment
      | "T" => some DefTag.directiveDef
      | _ => none)
    let p ← p.toNat?
    let np ← np.toNat?
    let cp ← cp.toNat?
    let inner ← (splitNE inner "+").mapM String.toNat?
    pure ⟨t, if n == "-" then none else some n, p, np, cp, ro == "1", co == "1", inner⟩
  | _ => none

def xdiagStr : XDiag → String
  | .ambiguousAnonymousOperation => "ambiguous"
  | .undefinedRootOperation => "undefroot"
  | .operationNameCollision n => "opcoll(" ++ n ++ ")"
  | .fragmentNameCollision n => "fragcoll(" ++ n ++ ")"
  | .undefinedTypeCondition n => "undefcond(" ++ n ++ ")"
  | .typeSystemDefinition => "typesys"
  | .undefinedField => "undeffield"

def xbuilderStr (r : XBuilder) : String :=
  "A[" ++ posStr r.anonymous ++ "]N[" ++ ",".intercalate (r.named.map (fun p => p.1 ++ "@" ++ toString p.2))
    ++ "]F[" ++ ",".intercalate (r.fragments.map (fun p => p.1 ++ "@" ++ toString p.2))
    ++ "]E[" ++ ",".intercalate (r.errors.map (fun e => toString e.pos ++ ":" ++ xdiagStr e.diag)) ++ "]"

/-- streams of property C13 are named `c13.<name>` -/
def c13 (stream : String) (fs : List String) : String :=
  match stream, fs with
  | "c13.schema", [flags, srcs] =>
    let flags := decodeField flags
    let srcs := String.ofList (decodeField srcs)
    match flags, sourcesOf srcs with
    | [a, i], some srcs => builderStr (build (Builder.new (a == '1') (i == '1')) srcs)
    | _, _ => "bad-case"
  | "c13.exec", [srcs] =>
    let srcs := String.ofList (decodeField srcs)
    match (srcs.splitOn "|").mapM (fun src => (splitNE src ";").mapM xdefOf) with
    | some srcs => xbuilderStr (xbuild srcs)
    | none => "bad-case"
  | _, _ => "unknown-stream"

end Driver
