import ApolloModel.Model.Proto
open Apollo Apollo.Proto
namespace Driver

/-- streams of property C13 are named `c13.<name>` -/
def c13 (_stream : String) (_fs : List String) : String := "unknown-stream"

end Driver
