import ApolloModel.Model.Proto
import ApolloModel.Model.Lexer
open Apollo Apollo.Proto Apollo.Lex
namespace Driver

def kindName : Kind → String
  | .whitespace => "whitespace" | .comment => "comment" | .bang => "bang" | .dollar => "dollar" | .amp => "amp"
  | .spread => "spread" | .comma => "comma" | .colon => "colon" | .eq => "eq" | .at => "at" | .lParen => "lParen"
  | .rParen => "rParen" | .lBracket => "lBracket" | .rBracket => "rBracket" | .lCurly => "lCurly" | .rCurly => "rCurly"
  | .pipe => "pipe" | .eof => "eof" | .name => "name" | .stringValue => "stringValue" | .int => "int" | .float => "float"

def utf8Len (s : List Char) : Nat := s.foldl (fun n c => n + c.utf8Size) 0

def showItems (items : List Item) : String :=
  let rec go (pos : Nat) : List Item → List String
    | [] => []
    | .tok k d :: rest => s!"{kindName k},{pos},{utf8Len d}" :: go (pos + utf8Len d) rest
    | .err d :: rest => s!"E,{pos},{utf8Len d}" :: go (pos + utf8Len d) rest
    | .limit :: rest => "L,0,0" :: go pos rest
  ";".intercalate (go 0 items)

def c03 (stream : String) (fs : List String) : String :=
  match stream, fs with
  | "lex", [src] => showItems (lex none (decodeField src))
  | "lexlim", [lim, src] =>
    match lim.toNat? with
    | some l => showItems (lex (some l) (decodeField src))
    | none => "bad-case"
  | _, _ => "bad-case"

end Driver
