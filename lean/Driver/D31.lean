import ApolloModel.Model.Proto
import ApolloModel.Model.FileId
open Apollo Apollo.Proto Apollo.FileId
namespace Driver

def c31 (stream : String) (fs : List String) : String :=
  match stream, fs with
  | "pack", [tag, id] =>
    match id.toNat? with
    | none => "bad-case"
    | some id =>
      -- a `FileId` holds a NonZeroU64 with the tag bit clear; anything else cannot be constructed
      if id == 0 || id &&& TAG != 0 then "none"
      else match pack (parseBool tag) id with
        | none => "PANIC"
        | some p => s!"{p},{boolStr (tagOf p)},{fileIdOf p}"
  | "alloc", [start, k] =>
    match start.toNat?, k.toNat? with
    | some start, some k => ",".intercalate ((allocSeq Gen.fileIdAllocIsRmw start k).map toString)
    | _, _ => "bad-case"
  | _, _ => "bad-case"

end Driver
