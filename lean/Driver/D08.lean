import ApolloModel.Model.Proto
import ApolloModel.Model.Lexer
import ApolloModel.Model.AstParse
import ApolloModel.Model.AstDump
import ApolloModel.Proofs.AstDocument3
open Apollo Apollo.Proto Apollo.Ast
namespace Driver

/-- streams of property C08 are named `c08.<name>` -/
def punctOf : Lex.Kind → Option P
  | .bang => some .bang | .dollar => some .dollar | .amp => some .amp | .spread => some .spread
  | .colon => some .colon | .eq => some .eq | .at => some .at | .lParen => some .lParen
  | .rParen => some .rParen | .lBracket => some .lBracket | .rBracket => some .rBracket
  | .lCurly => some .lCurly | .rCurly => some .rCurly | .pipe => some .pipe
  | _ => none

/-- significant tokens of the lexer model's output; `none` on a lexical error -/
def sigToks : List Lex.Item → Option (List Tok)
  | [] => some []
  | .tok k d :: r =>
    match k with
    | .whitespace | .comment | .comma | .eof => sigToks r
    | .name => (sigToks r).map (Tok.name d :: ·)
    | .int => (sigToks r).map (Tok.int d :: ·)
    | .float => (sigToks r).map (Tok.float d :: ·)
    | .stringValue =>
      match Strs.decodeStringToken d with
      | some s => (sigToks r).map (Tok.str s :: ·)
      | none => none
    | k =>
      match punctOf k with
      | some p => (sigToks r).map (Tok.p p :: ·)
      | none => none
  | _ :: _ => none

def parseSource (src : Str) : Option Document :=
  match sigToks (Lex.lex none src) with
  | some ts => pDocument (2 * ts.length + 10) ts
  | none => none

def c08 (stream : String) (fs : List String) : String :=
  match stream, fs with
  | "c08.ast", [src] =>
    match parseSource (decodeField src) with
    | some d => dDocument d
    | none => "REJECT"
  | "c08.print", [pre, level, src] =>
    let pre : Option Str := if pre == "-" then none else some (decodeField pre)
    match level.toNat?, parseSource (decodeField src) with
    | some l, some d =>
      let st := serializeDocument pre l d
      if st.underflow then "PANIC" else encodeField st.out
    | _, _ => "REJECT"
  | "c08.toks", [pre, level, src] =>
    -- the token stream of the printed text, re-lexed by the lexer model, equals `toksOf` of the commands
    let pre : Option Str := if pre == "-" then none else some (decodeField pre)
    match level.toNat?, parseSource (decodeField src) with
    | some l, some d =>
      let st := serializeDocument pre l d
      match sigToks (Lex.lex none st.out) with
      | some ts => boolStr (ts == toksOf (cDocument (outputEmptyAtStart pre l) d) && wfDefinitions d
          && (pDocument (szDefinitions d) ts).map dDocument == some (dDocument d))
      | none => "lex-error"
    | _, _ => "REJECT"
  | _, _ => "bad-case"

end Driver
