import ApolloModel.Model.Proto
open Apollo Apollo.Proto
namespace Driver

/-- streams of property C08 are named `c08.<name>` -/
def c08 (_stream : String) (_fs : List String) : String := "unknown-stream"

end Driver
