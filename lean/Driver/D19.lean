import ApolloModel.Model.Proto
import ApolloModel.Model.ExecDoc
import ApolloModel.Model.AstDump
import Driver.D08
open Apollo Apollo.Proto Apollo.Ast Apollo.Exec
namespace Driver

/-! schema tables written by harness/src/p19.rs: `R q m s`, `T name kind nfields (fname defid innerTy)*` (names raw) -/

def optName (t : String) : Option Str := if t == "-" then none else some t.toList

partial def pXFields : Nat → List String → Option (List (Str × XFDef) × List String)
  | 0, ts => some ([], ts)
  | n + 1, f :: i :: t :: ts => do
    let i ← i.toNat?
    let (r, ts) ← pXFields n ts
    pure ((f.toList, { id := i, ty := t.toList }) :: r, ts)
  | _, _ => none

partial def pXSchema (acc : XSchema) : List String → Option XSchema
  | [] => some acc
  | "R" :: q :: m :: s :: ts => pXSchema { acc with query := optName q, mutation := optName m, subscription := optName s } ts
  | "T" :: n :: k :: c :: ts => do
    let k ← (match k with
      | "o" => some XKind.object | "i" => some .interface | "u" => some .union
      | "s" => some .scalar | "e" => some .enum | "n" => some .inputObject | _ => none)
    let c ← c.toNat?
    let (fs, ts) ← pXFields c ts
    pXSchema { acc with types := acc.types ++ [{ name := n.toList, kind := k, fields := fs }] } ts
  | _ => none

/-- streams of property C19 are named `c19.<name>` -/
def c19 (stream : String) (fs : List String) : String :=
  match stream, fs with
  | "c19.toast", [schema, src] =>
    let toks := ((String.ofList (decodeField schema)).splitOn " ").filter (· ≠ "")
    match pXSchema { types := [], query := none, mutation := none, subscription := none } toks, parseSource (decodeField src) with
    | some s, some ast => dDocument (toAst (fromDoc s ast))
    | _, _ => "bad-case"
  | _, _ => "unknown-stream"

end Driver
