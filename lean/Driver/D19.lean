import ApolloModel.Model.Proto
open Apollo Apollo.Proto
namespace Driver

/-- streams of property C19 are named `c19.<name>` -/
def c19 (_stream : String) (_fs : List String) : String := "unknown-stream"

end Driver
