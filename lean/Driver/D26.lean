import ApolloModel.Model.Proto
import ApolloModel.Model.Execution
import Driver.D28
open Apollo Apollo.Proto Apollo.Exec
namespace Driver

/-! streams of property C26 are named `c26.<name>`; token code written by harness/src/p26.rs -/
namespace D26
open D28

mutual
def decAVal : Nat → Toks → Option (AVal × Toks)
  | 0, _ => none
  | fuel + 1, ts =>
    match ts with
    | [] => none
    | t :: rest =>
      match t.toList with
      | ['z'] => some (.null, rest)
      | ['t'] => some (.bool true, rest)
      | ['f'] => some (.bool false, rest)
      | 'q' :: ds => some (.var (String.ofList ds), rest)
      | 'i' :: ds => (parseInt (String.ofList ds)).map fun z => (.int z, rest)
      | 'd' :: ds => some (.float (String.ofList ds), rest)
      | 's' :: ds => some (.str (String.ofList ds), rest)
      | 'e' :: ds => some (.enum (String.ofList ds), rest)
      | 'a' :: ds => do
        let n ← (String.ofList ds).toNat?
        let (xs, r) ← decAVals fuel n rest
        pure (.list xs, r)
      | 'o' :: ds => do
        let n ← (String.ofList ds).toNat?
        let (kvs, r) ← decAFields fuel n rest
        pure (.obj kvs, r)
      | _ => none
def decAVals : Nat → Nat → Toks → Option (List AVal × Toks)
  | 0, _, _ => none
  | _ + 1, 0, ts => some ([], ts)
  | fuel + 1, k + 1, ts => do
    let (x, r) ← decAVal fuel ts
    let (xs, r2) ← decAVals fuel k r
    pure (x :: xs, r2)
def decAFields : Nat → Nat → Toks → Option (List (String × AVal) × Toks)
  | 0, _, _ => none
  | _ + 1, 0, ts => some ([], ts)
  | fuel + 1, k + 1, ts =>
    match ts with
    | [] => none
    | key :: rest => do
      let (x, r) ← decAVal fuel rest
      let (xs, r2) ← decAFields fuel k r
      pure ((tail1 key, x) :: xs, r2)
end

def decCond (t : String) : Option (Option Cond) :=
  match t.toList with
  | ['-'] => some none
  | ['t'] => some (some (.const true))
  | ['f'] => some (some (.const false))
  | 'v' :: n => some (some (.var (String.ofList n)))
  | _ => none

def decDirs : Toks → Option (Dirs × Toks)
  | a :: b :: rest => do
    let s ← decCond a
    let i ← decCond b
    pure ({ skip := s, incl := i }, rest)
  | _ => none

mutual
def decSel : Nat → Toks → Option (Sel × Toks)
  | 0, _ => none
  | fuel + 1, ts =>
    match ts with
    | [] => none
    | t :: rest =>
      match t.toList with
      | ['F'] =>
        match rest with
        | al :: nm :: cnt :: rest2 => do
          let alias := if al == "-" then none else some (tail1 al)
          let c ← cnt.toNat?
          let (args, r) ← decAFields fuel c rest2
          let (dirs, r2) ← decDirs r
          let (sub, r3) ← decSels fuel r2
          pure (.field alias (tail1 nm) args dirs sub, r3)
        | _ => none
      | 'P' :: nm => do
        let (dirs, r) ← decDirs rest
        pure (.spread (String.ofList nm) dirs, r)
      | ['N'] =>
        match rest with
        | c :: rest2 => do
          let cond := if c == "-" then none else some (tail1 c)
          let (dirs, r) ← decDirs rest2
          let (sub, r2) ← decSels fuel r
          pure (.inline cond dirs sub, r2)
        | _ => none
      | _ => none
/-- `<count> sel…` -/
def decSels : Nat → Toks → Option (List Sel × Toks)
  | 0, _ => none
  | fuel + 1, ts =>
    match ts with
    | [] => none
    | cnt :: rest => do
      let c ← cnt.toNat?
      decSelN fuel c rest
def decSelN : Nat → Nat → Toks → Option (List Sel × Toks)
  | 0, _, _ => none
  | _ + 1, 0, ts => some ([], ts)
  | fuel + 1, k + 1, ts => do
    let (x, r) ← decSel fuel ts
    let (xs, r2) ← decSelN fuel k r
    pure (x :: xs, r2)
end

def decFrags (fuel : Nat) : Nat → Toks → Option (AList Frag × Toks)
  | 0, ts => some ([], ts)
  | k + 1, nm :: c :: rest => do
    let (sub, r) ← decSels fuel rest
    let (more, r2) ← decFrags fuel k r
    pure ((tail1 nm, { cond := tail1 c, sub := sub }) :: more, r2)
  | _ + 1, _ => none

mutual
def decRV : Nat → Toks → Option (RV × Toks)
  | 0, _ => none
  | fuel + 1, ts =>
    match ts with
    | [] => none
    | t :: rest =>
      match t.toList with
      | ['l'] => do
        let (v, r) ← decVal fuel rest
        pure (.leaf v.toJson, r)
      | ['x'] => some (.error, rest)
      | ['s'] => some (.skip, rest)
      | ['e'] => some (.echo, rest)
      | 'L' :: ds => do
        let n ← (String.ofList ds).toNat?
        let (xs, r) ← decRVs fuel n rest
        pure (.list xs, r)
      | 'o' :: tn =>
        match rest with
        | idt :: rest2 => do
          let id ← idt.toNat?
          pure (.object (String.ofList tn) id, rest2)
        | [] => none
      | _ => none
def decRVs : Nat → Nat → Toks → Option (List RV × Toks)
  | 0, _, _ => none
  | _ + 1, 0, ts => some ([], ts)
  | fuel + 1, k + 1, ts => do
    let (x, r) ← decRV fuel ts
    let (xs, r2) ← decRVs fuel k r
    pure (x :: xs, r2)
end

def decWorld (fuel : Nat) : Nat → Toks → Option (World × Toks)
  | 0, ts => some ([], ts)
  | k + 1, idt :: f :: rest => do
    let id ← idt.toNat?
    let (rv, r) ← decRV fuel rest
    let (more, r2) ← decWorld fuel k r
    pure (((id, tail1 f), rv) :: more, r2)
  | _ + 1, _ => none

def decFieldDefs (fuel : Nat) : Nat → Toks → Option (List FieldDef × Toks)
  | 0, ts => some ([], ts)
  | k + 1, nm :: cnt :: rest => do
    let c ← cnt.toNat?
    let (args, r) ← decDefs fuel c rest
    let (ty, r2) ← decTy fuel r
    let (more, r3) ← decFieldDefs fuel k r2
    pure ({ name := tail1 nm, args := args, ty := ty } :: more, r3)
  | _ + 1, _ => none

structure SchemaAcc where
  inputs : AList TypeDef := []
  objects : AList ObjectDef := []
  interfaces : List String := []
  unions : AList (List String) := []

def decSchemaTypes (fuel : Nat) : Nat → Toks → SchemaAcc → Option (SchemaAcc × Toks)
  | 0, ts, acc => some (acc, ts)
  | k + 1, ts, acc =>
    match ts with
    | [] => none
    | t :: rest =>
      match t.toList with
      | 'S' :: nm => decSchemaTypes fuel k rest { acc with inputs := acc.inputs ++ [(String.ofList nm, .scalar)] }
      | 'F' :: nm => decSchemaTypes fuel k rest { acc with interfaces := acc.interfaces ++ [String.ofList nm] }
      | 'E' :: nm =>
        match rest with
        | cnt :: rest2 => do
          let c ← cnt.toNat?
          let (vals, r) ← decNames c rest2
          decSchemaTypes fuel k r { acc with inputs := acc.inputs ++ [(String.ofList nm, .enum vals)] }
        | [] => none
      | 'U' :: nm =>
        match rest with
        | cnt :: rest2 => do
          let c ← cnt.toNat?
          let (ms, r) ← decNames c rest2
          decSchemaTypes fuel k r { acc with unions := acc.unions ++ [(String.ofList nm, ms)] }
        | [] => none
      | 'I' :: nm =>
        match rest with
        | cnt :: rest2 => do
          let c ← cnt.toNat?
          let (fs, r) ← decDefs fuel c rest2
          decSchemaTypes fuel k r { acc with inputs := acc.inputs ++ [(String.ofList nm, .input fs)] }
        | [] => none
      | 'O' :: nm =>
        match rest with
        | cnt :: rest2 => do
          let c ← cnt.toNat?
          let (impls, r) ← decNames c rest2
          match r with
          | fc :: r2 => do
            let fcn ← fc.toNat?
            let (fields, r3) ← decFieldDefs fuel fcn r2
            decSchemaTypes fuel k r3 { acc with objects := acc.objects ++ [(String.ofList nm, { implements := impls, fields := fields })] }
          | [] => none
        | [] => none
      | _ => none

def decSchema (ts : Toks) : Option Schema :=
  match ts with
  | q :: cnt :: rest => do
    let c ← cnt.toNat?
    let (acc, r) ← decSchemaTypes (ts.length + 2) c rest {}
    if r.isEmpty then
      pure { inputs := { types := acc.inputs }, objects := acc.objects, interfaces := acc.interfaces, unions := acc.unions, query := tail1 q }
    else none
  | _ => none

mutual
/-- printing with the key order of the response kept -/
def renderRaw : Json → List String
  | .null => ["z"]
  | .bool b => [if b then "t" else "f"]
  | .int z => ["i" ++ toString z]
  | .float t => ["d" ++ t]
  | .str s => ["s" ++ s]
  | .arr xs => ("a" ++ toString xs.length) :: renderRawList xs
  | .obj kvs => ("o" ++ toString kvs.length) :: renderRawFields kvs
def renderRawList : List Json → List String
  | [] => []
  | x :: xs => renderRaw x ++ renderRawList xs
def renderRawFields : List (String × Json) → List String
  | [] => []
  | (k, v) :: rest => ("k" ++ k) :: renderRaw v ++ renderRawFields rest
end

def pathText (p : Path) : String :=
  "/".intercalate (p.map fun s => match s with | .key k => "k" ++ k | .idx i => "#" ++ toString i)

def insertStr (x : String) : List String → List String
  | [] => [x]
  | y :: ys => if x < y then x :: y :: ys else y :: insertStr x ys

def sortStr : List String → List String
  | [] => []
  | x :: xs => insertStr x (sortStr xs)

def countSels : Nat → List Sel → Nat
  | 0, _ => 0
  | _ + 1, [] => 0
  | n + 1, s :: rest => 1 + countSels n s.fsub + (match s with | .inline _ _ sub => countSels n sub | _ => 0) + countSels n rest

def exec (schema op vars world : String) : String :=
  let ot := toks op
  let vt := toks vars
  let wt := toks world
  let fuel := ot.length + vt.length + wt.length + 8
  match decSchema (toks schema), ot, wt with
  | some sch, fc :: orest, wc :: wrest =>
    match fc.toNat?, wc.toNat? with
    | some fcn, some wcn =>
      match decFrags fuel fcn orest, decWorld fuel wcn wrest, decVal fuel vt with
      | some (frags, r), some (w, []), some (.obj vkvs, []) =>
        match decSels fuel r with
        | some (sels, []) =>
          let env : Env := { schema := sch, frags := frags, vars := Value.toJsonFields vkvs, world := w, cfuel := 4 * ot.length + 16 }
          match execute (ot.length + wt.length + 16) env sels with
          | .outOfFuel => "out-of-fuel"
          | .response resp =>
            let d := match resp.data with
              | some m => renderRaw (.obj m)
              | none => ["N"]
            " ".intercalate ("data" :: d) ++ " | errs " ++ ";".intercalate (sortStr (resp.errors.map pathText))
        | _ => "bad-case"
      | _, _, _ => "bad-case"
    | _, _ => "bad-case"
  | _, _, _ => "bad-case"

end D26

def c26 (stream : String) (fs : List String) : String :=
  match stream, fs with
  | "c26.exec", [schema, op, vars, world] => D26.exec schema op vars world
  | _, _ => "unknown-stream"

end Driver
