import ApolloModel.Model.Proto
open Apollo Apollo.Proto
namespace Driver

/-- streams of property C26 are named `c26.<name>` -/
def c26 (_stream : String) (_fs : List String) : String := "unknown-stream"

end Driver
