import ApolloModel.Model.Proto
import ApolloModel.Model.ExecValidation
import ApolloModel.Model.ExecValidationCache
import ApolloModel.Spec.ExecValidation
open Apollo Apollo.Proto Apollo.ExecVal
namespace Driver

/-- text up to (not including) the first `stop`; rest after it -/
def c17Until (stop : Char) (cs : List Char) : String × List Char :=
  (String.ofList (cs.takeWhile (· != stop)), (cs.dropWhile (· != stop)).drop 1)

mutual
/-- prefix code written by harness/src/p17.rs `val_enc` -/
def c17Value : Nat → List Char → Option (Value × List Char)
  | 0, _ => none
  | fuel + 1, cs =>
    match cs with
    | 'n' :: r => some (.null, r)
    | 't' :: r => some (.bool true, r)
    | 'F' :: r => some (.bool false, r)
    | 'e' :: r => let (t, r) := c17Until ';' r; some (.enum t, r)
    | 'v' :: r => let (t, r) := c17Until ';' r; some (.var t, r)
    | 's' :: r => let (t, r) := c17Until ';' r; some (.str t, r)
    | 'f' :: r => let (t, r) := c17Until ';' r; some (.float t, r)
    | 'i' :: r => let (t, r) := c17Until ';' r; some (.int t, r)
    | 'l' :: r => (c17Values fuel r).map fun (vs, r) => (.list vs, r)
    | 'o' :: r => (c17Fields fuel r).map fun (fs, r) => (.object fs, r)
    | _ => none
def c17Values : Nat → List Char → Option (List Value × List Char)
  | 0, _ => none
  | fuel + 1, cs =>
    match cs with
    | '.' :: r => some ([], r)
    | _ => do
      let (v, r) ← c17Value fuel cs
      let (vs, r) ← c17Values fuel r
      pure (v :: vs, r)
def c17Fields : Nat → List Char → Option (List (String × Value) × List Char)
  | 0, _ => none
  | fuel + 1, cs =>
    match cs with
    | '.' :: r => some ([], r)
    | 'k' :: r => do
      let (k, r) := c17Until ';' r
      let (v, r) ← c17Value fuel r
      let (fs, r) ← c17Fields fuel r
      pure ((k, v) :: fs, r)
    | _ => none
end

def c17ValueAll (s : String) : Option Value :=
  match c17Value (s.length + 2) s.toList with
  | some (v, []) => some v
  | _ => none

/-- the named types of the `c17.shape` schemas -/
def c17ShapeKind (n : Name) : Option TypeKind :=
  if n == "Int" || n == "String" || n == "S" then some .scalar
  else if n == "E" then some .enum
  else if n == "O" then some .object
  else if n == "I" then some .interface
  else if n == "U" then some .union
  else none

/-- `rsel_enc`: `f<key>,<name>;` (`c…` with a conditional directive), `i`/`j` inline, `s<j>;`/`t<j>;`, `.` -/
def c17Sels : Nat → List Char → Option (Sels × List Char)
  | 0, _ => none
  | fuel + 1, cs =>
    match cs with
    | '.' :: r => some (.nil, r)
    | c :: r =>
      if c == 'f' || c == 'c' then do
        let (k, r) := c17Until ',' r
        let (n, r) := c17Until ';' r
        let (rest, r) ← c17Sels fuel r
        pure (.field k n (c == 'c') rest, r)
      else if c == 'i' || c == 'j' then do
        let (sub, r) ← c17Sels fuel r
        let (rest, r) ← c17Sels fuel r
        pure (.inline (c == 'j') sub rest, r)
      else if c == 's' || c == 't' then do
        let (t, r) := c17Until ';' r
        let j ← t.toNat?
        let (rest, r) ← c17Sels fuel r
        pure (.spread j (c == 't') rest, r)
      else none
    | [] => none

def c17SelsAll (s : String) : Option Sels :=
  match c17Sels (s.length + 2) s.toList with
  | some (t, []) => some t
  | _ => none

/-- `afield_enc`: `<key|parent|O or A|nameArgs|shape|` subs `>` -/
def c17AFields : Nat → List Char → Option (List AField × List Char)
  | 0, _ => none
  | fuel + 1, cs =>
    match cs with
    | '<' :: r => do
      let (k, r) := c17Until '|' r
      let (p, r) := c17Until '|' r
      let (o, r) := c17Until '|' r
      let (na, r) := c17Until '|' r
      let (sh, r) := c17Until '|' r
      let (subs, r) ← c17AFields fuel r
      match r with
      | '>' :: r => do
        let (rest, r) ← c17AFields fuel r
        pure (AField.mk k p (o == "O") na sh subs :: rest, r)
      | _ => none
    | _ => some ([], cs)

def c17AFieldsAll (s : String) : Option (List AField) :=
  match c17AFields (s.length + 2) s.toList with
  | some (t, []) => some t
  | _ => none

def c17NatList (s : String) : List Nat := (s.splitOn ",").filterMap String.toNat?

/-- streams of property C17 are named `c17.<name>` -/
def c17 (stream : String) (fs : List String) : String :=
  match stream, fs with
  | "c17.samevalue", [a, b] =>
    match c17ValueAll (String.ofList (decodeField a)), c17ValueAll (String.ofList (decodeField b)) with
    -- field_a is the first selection: `same_value(&other_arg.value, &arg.value)`
    | some va, some vb => if sameValue vb va then "same" else "differ"
    | _, _ => "bad-case"
  | "c17.shape", [a, b] =>
    match Ty.decode (String.ofList (decodeField a)), Ty.decode (String.ofList (decodeField b)) with
    | some ta, some tb => if sameOutputTypeShape c17ShapeKind ta tb then "ok" else "conflict"
    | _, _ => "bad-case"
  | "c17.subscription", [frags, op] =>
    let fl := (((String.ofList (decodeField frags)).splitOn "|").filter (· ≠ "")).map c17SelsAll
    if fl.any Option.isNone then "bad-case"
    else match c17SelsAll (String.ofList (decodeField op)) with
      | none => "bad-case"
      | some op => subscriptionVerdict (fl.filterMap id) op
  | "c17.merge", [fs] =>
    match c17AFieldsAll (String.ofList (decodeField fs)) with
    | some fs => if xingCanMerge 128 fs then "ok" else "conflict"
    | none => "bad-case"
  | "c17.mergecached", [fs] =>
    -- the algorithm with the validator's cache and guards (Model/ExecValidationCache.lean)
    match c17AFieldsAll (String.ofList (decodeField fs)) with
    | some fs => if xingCachedDoc AField.beqList 128 [fs] then "ok" else "conflict"
    | none => "bad-case"
  | "c17.mergespec", [fs] =>
    match c17AFieldsAll (String.ofList (decodeField fs)) with
    | some fs => if Apollo.Spec.ExecVal.documentFieldsCanMerge 128 fs then "ok" else "conflict"
    | none => "bad-case"
  | "c17.unusedfrag", [op, g] =>
    let opl := c17NatList (String.ofList (decodeField op))
    let parts := (String.ofList (decodeField g)).splitOn "|"
    let frags := (parts.take (parts.length - 1)).map c17NatList
    toString (unusedCount frags [opl])
  | "c17.perop", [ops, g] =>
    let oparts := (String.ofList (decodeField ops)).splitOn "/"
    let opl := (oparts.take (oparts.length - 1)).map c17NatList
    let parts := (String.ofList (decodeField g)).splitOn "|"
    let frags := (parts.take (parts.length - 1)).map c17NatList
    toString (validationCount frags opl)
  | _, _ => "bad-case"

end Driver
