import ApolloModel.Model.Proto
open Apollo Apollo.Proto
namespace Driver

/-- streams of property C17 are named `c17.<name>` -/
def c17 (_stream : String) (_fs : List String) : String := "unknown-stream"

end Driver
