import ApolloModel.Model.Proto
import ApolloModel.Model.ExecValidation
import ApolloModel.Model.ExecValidationCache
import ApolloModel.Model.ExecRules
import ApolloModel.Model.ExpandSelections
import ApolloModel.Model.ExecValues
import Driver.D14b
import ApolloModel.Spec.ExecValidation
open Apollo Apollo.Proto Apollo.ExecVal
namespace Driver

/-- text up to (not including) the first `stop`; rest after it -/
def c17Until (stop : Char) (cs : List Char) : String × List Char :=
  (String.ofList (cs.takeWhile (· != stop)), (cs.dropWhile (· != stop)).drop 1)

mutual
/-- prefix code written by harness/src/p17.rs `val_enc` -/
def c17Value : Nat → List Char → Option (Value × List Char)
  | 0, _ => none
  | fuel + 1, cs =>
    match cs with
    | 'n' :: r => some (.null, r)
    | 't' :: r => some (.bool true, r)
    | 'F' :: r => some (.bool false, r)
    | 'e' :: r => let (t, r) := c17Until ';' r; some (.enum t, r)
    | 'v' :: r => let (t, r) := c17Until ';' r; some (.var t, r)
    | 's' :: r => let (t, r) := c17Until ';' r; some (.str t, r)
    | 'f' :: r => let (t, r) := c17Until ';' r; some (.float t, r)
    | 'i' :: r => let (t, r) := c17Until ';' r; some (.int t, r)
    | 'l' :: r => (c17Values fuel r).map fun (vs, r) => (.list vs, r)
    | 'o' :: r => (c17Fields fuel r).map fun (fs, r) => (.object fs, r)
    | _ => none
def c17Values : Nat → List Char → Option (List Value × List Char)
  | 0, _ => none
  | fuel + 1, cs =>
    match cs with
    | '.' :: r => some ([], r)
    | _ => do
      let (v, r) ← c17Value fuel cs
      let (vs, r) ← c17Values fuel r
      pure (v :: vs, r)
def c17Fields : Nat → List Char → Option (List (String × Value) × List Char)
  | 0, _ => none
  | fuel + 1, cs =>
    match cs with
    | '.' :: r => some ([], r)
    | 'k' :: r => do
      let (k, r) := c17Until ';' r
      let (v, r) ← c17Value fuel r
      let (fs, r) ← c17Fields fuel r
      pure ((k, v) :: fs, r)
    | _ => none
end

def c17ValueAll (s : String) : Option Value :=
  match c17Value (s.length + 2) s.toList with
  | some (v, []) => some v
  | _ => none

/-- the named types of the `c17.shape` schemas -/
def c17ShapeKind (n : Name) : Option TypeKind :=
  if n == "Int" || n == "String" || n == "S" then some .scalar
  else if n == "E" then some .enum
  else if n == "O" then some .object
  else if n == "I" then some .interface
  else if n == "U" then some .union
  else none

/-- `rsel_enc`: `f<key>,<name>;` (`c…` with a conditional directive), `i`/`j` inline, `s<j>;`/`t<j>;`, `.` -/
def c17Sels : Nat → List Char → Option (Sels × List Char)
  | 0, _ => none
  | fuel + 1, cs =>
    match cs with
    | '.' :: r => some (.nil, r)
    | c :: r =>
      if c == 'f' || c == 'c' then do
        let (k, r) := c17Until ',' r
        let (n, r) := c17Until ';' r
        let (rest, r) ← c17Sels fuel r
        pure (.field k n (c == 'c') rest, r)
      else if c == 'i' || c == 'j' then do
        let (sub, r) ← c17Sels fuel r
        let (rest, r) ← c17Sels fuel r
        pure (.inline (c == 'j') sub rest, r)
      else if c == 's' || c == 't' then do
        let (t, r) := c17Until ';' r
        let j ← t.toNat?
        let (rest, r) ← c17Sels fuel r
        pure (.spread j (c == 't') rest, r)
      else none
    | [] => none

def c17SelsAll (s : String) : Option Sels :=
  match c17Sels (s.length + 2) s.toList with
  | some (t, []) => some t
  | _ => none

/-- `afield_enc`: `<key|parent|O or A|nameArgs|shape|` subs `>` -/
def c17AFields : Nat → List Char → Option (List AField × List Char)
  | 0, _ => none
  | fuel + 1, cs =>
    match cs with
    | '<' :: r => do
      let (k, r) := c17Until '|' r
      let (p, r) := c17Until '|' r
      let (o, r) := c17Until '|' r
      let (na, r) := c17Until '|' r
      let (sh, r) := c17Until '|' r
      let (subs, r) ← c17AFields fuel r
      match r with
      | '>' :: r => do
        let (rest, r) ← c17AFields fuel r
        pure (AField.mk k p (o == "O") na sh subs :: rest, r)
      | _ => none
    | _ => some ([], cs)

def c17AFieldsAll (s : String) : Option (List AField) :=
  match c17AFields (s.length + 2) s.toList with
  | some (t, []) => some t
  | _ => none

def c17NatList (s : String) : List Nat := (s.splitOn ",").filterMap String.toNat?

/-! ### family streams `c17.ops` / `c17.frags` / `c17.fields` / `c17.args` / `c17.vars` -/
namespace Fam
open Apollo.ExecRules

abbrev Toks := List String

def many {α : Type} (one : Toks → Option (α × Toks)) : Nat → Toks → Option (List α × Toks)
  | 0, ts => some ([], ts)
  | k + 1, ts => do
    let (x, r) ← one ts
    let (xs, r2) ← many one k r
    pure (x :: xs, r2)

def counted {α : Type} (one : Toks → Option (α × Toks)) : Toks → Option (List α × Toks)
  | c :: r => do
    let n ← c.toNat?
    many one n r
  | [] => none

def name1 : Toks → Option (String × Toks)
  | t :: r => some (t, r)
  | [] => none

def optName : Toks → Option (Option String × Toks)
  | "-" :: r => some (none, r)
  | t :: r => some (some t, r)
  | [] => none

def decTy : Nat → Toks → Option (Ty × Toks)
  | 0, _ => none
  | fuel + 1, ts =>
    match ts with
    | [] => none
    | t :: rest =>
      if t == "l" then (decTy fuel rest).map fun (x, r) => (.list x, r)
      else if t == "L" then (decTy fuel rest).map fun (x, r) => (.nonNullList x, r)
      else match t.toList with
        | 'n' :: nm => some (.named (String.ofList nm), rest)
        | 'N' :: nm => some (.nonNullNamed (String.ofList nm), rest)
        | _ => none

def inDef (ts : Toks) : Option (InDef × Toks) := do
  let (n, r) ← name1 ts
  let (ty, r) ← decTy 64 r
  match r with
  | "1" :: r => pure ({ name := n, ty := ty, hasDefault := true }, r)
  | "0" :: r => pure ({ name := n, ty := ty, hasDefault := false }, r)
  | _ => none

def fieldDef (ts : Toks) : Option ((String × RFieldDef) × Toks) := do
  let (n, r) ← name1 ts
  let (args, r) ← counted inDef r
  let (ty, r) ← decTy 64 r
  pure ((n, { args := args, ty := ty }), r)

def typeInfo (ts : Toks) : Option (TypeInfo × Toks) := do
  let (n, r) ← name1 ts
  match r with
  | "s1" :: r => pure ({ name := n, kind := .scalar true, fields := [] }, r)
  | "s0" :: r => pure ({ name := n, kind := .scalar false, fields := [] }, r)
  | "e" :: r => pure ({ name := n, kind := .enum, fields := [] }, r)
  | "i" :: r => do
    let (fs, r) ← counted inDef r
    pure ({ name := n, kind := .inputObject fs, fields := [] }, r)
  | "o" :: r => do
    let (is, r) ← counted name1 r
    let (fs, r) ← counted fieldDef r
    pure ({ name := n, kind := .object is, fields := fs }, r)
  | "f" :: r => do
    let (is, r) ← counted name1 r
    let (fs, r) ← counted fieldDef r
    pure ({ name := n, kind := .interface is, fields := fs }, r)
  | "u" :: r => do
    let (ms, r) ← counted name1 r
    pure ({ name := n, kind := .union ms, fields := [] }, r)
  | _ => none

def locOf (t : String) : Standalone.Loc :=
  if t == "q" then .query else if t == "m" then .mutation else if t == "s" then .subscription else if t == "f" then .field
  else if t == "g" then .fragmentDefinition else if t == "p" then .fragmentSpread else if t == "i" then .inlineFragment
  else if t == "v" then .variableDefinition else .typeSystem ((String.ofList (t.toList.drop 1)).toNat?.getD 0)

def dirDef (ts : Toks) : Option (RDirDef × Toks) := do
  let (n, r) ← name1 ts
  let (rep, r) ← (match r with | "1" :: r => some (true, r) | "0" :: r => some (false, r) | _ => none)
  let (locs, r) ← counted name1 r
  let (args, r) ← counted inDef r
  pure ({ name := n, repeatable := rep, locs := locs.map locOf, args := args }, r)

def schema (ts : Toks) : Option RSchema := do
  let (q, r) ← optName ts
  let (m, r) ← optName r
  let (sub, r) ← optName r
  let (types, r) ← counted typeInfo r
  let (dirs, r) ← counted dirDef r
  if r.isEmpty then pure { types := types, query := q, mutation := m, subscription := sub, dirs := dirs } else none

mutual
def rval : Nat → Toks → Option (RVal × Toks)
  | 0, _ => none
  | fuel + 1, ts =>
    match ts with
    | [] => none
    | t :: rest =>
      match t.toList with
      | ['z'] => some (.null, rest)
      | ['x'] => some (.lit, rest)
      | 'v' :: nm => some (.var (String.ofList nm), rest)
      | 'a' :: ds => do
        let n ← (String.ofList ds).toNat?
        let (xs, r) ← rvals fuel n rest
        pure (.list xs, r)
      | 'o' :: ds => do
        let n ← (String.ofList ds).toNat?
        let (kvs, r) ← rfields fuel n rest
        pure (.obj kvs, r)
      | _ => none
def rvals : Nat → Nat → Toks → Option (List RVal × Toks)
  | 0, _, _ => none
  | _ + 1, 0, ts => some ([], ts)
  | fuel + 1, k + 1, ts => do
    let (x, r) ← rval fuel ts
    let (xs, r2) ← rvals fuel k r
    pure (x :: xs, r2)
def rfields : Nat → Nat → Toks → Option (List (String × RVal) × Toks)
  | 0, _, _ => none
  | _ + 1, 0, ts => some ([], ts)
  | fuel + 1, k + 1, ts =>
    match ts with
    | [] => none
    | key :: rest => do
      let (x, r) ← rval fuel rest
      let (xs, r2) ← rfields fuel k r
      pure ((String.ofList (key.toList.drop 1), x) :: xs, r2)
end

def rarg (fuel : Nat) (ts : Toks) : Option (RArg × Toks) := do
  let (n, r) ← name1 ts
  let (v, r) ← rval fuel r
  pure ({ name := n, value := v }, r)

def rdir (fuel : Nat) (ts : Toks) : Option (RDir × Toks) := do
  let (n, r) ← name1 ts
  let (args, r) ← counted (rarg fuel) r
  pure ({ name := n, args := args }, r)

def rsels : Nat → Toks → Option (RSels × Toks)
  | 0, _ => none
  | fuel + 1, ts =>
    match ts with
    | "." :: r => some (.nil, r)
    | "F" :: r => do
      let (n, r) ← name1 r
      let (ds, r) ← counted (rdir fuel) r
      let (as, r) ← counted (rarg fuel) r
      let (sub, r) ← rsels fuel r
      let (rest, r) ← rsels fuel r
      pure (.field n ds as sub rest, r)
    | "P" :: r => do
      let (n, r) ← name1 r
      let (ds, r) ← counted (rdir fuel) r
      let (rest, r) ← rsels fuel r
      pure (.spread n ds rest, r)
    | "I" :: r => do
      let (tc, r) ← optName r
      let (ds, r) ← counted (rdir fuel) r
      let (sub, r) ← rsels fuel r
      let (rest, r) ← rsels fuel r
      pure (.inline tc ds sub rest, r)
    | _ => none

def varDef (fuel : Nat) (ts : Toks) : Option (RVarDef × Toks) := do
  let (n, r) ← name1 ts
  let (ty, r) ← decTy 64 r
  let (d, r) ← (match r with
    | "a" :: r => some (Spec.DefaultValue.absent, r)
    | "n" :: r => some (Spec.DefaultValue.null, r)
    | "v" :: r => some (Spec.DefaultValue.nonNullValue, r)
    | _ => none)
  let (ds, r) ← counted (rdir fuel) r
  pure ({ name := n, ty := ty, default := d, dirs := ds }, r)

def rdefs : Nat → Toks → Option RAst
  | 0, _ => none
  | _ + 1, [] => some []
  | fuel + 1, "O" :: r => do
    let (ty, r) ← (match r with
      | "q" :: r => some (Standalone.OpType.query, r)
      | "m" :: r => some (Standalone.OpType.mutation, r)
      | "s" :: r => some (Standalone.OpType.subscription, r)
      | _ => none)
    let (nm, r) ← optName r
    let (vars, r) ← counted (varDef fuel) r
    let (ds, r) ← counted (rdir fuel) r
    let (sels, r) ← rsels fuel r
    let rest ← rdefs fuel r
    pure (.op { ty := ty, name := nm, vars := vars, dirs := ds, sels := sels } :: rest)
  | fuel + 1, "G" :: r => do
    let (n, r) ← name1 r
    let (tc, r) ← name1 r
    let (ds, r) ← counted (rdir fuel) r
    let (sels, r) ← rsels fuel r
    let rest ← rdefs fuel r
    pure (.frag { name := n, tc := tc, dirs := ds, sels := sels } :: rest)
  | fuel + 1, "X" :: r => do
    let rest ← rdefs fuel r
    pure (.typeSystem :: rest)
  | _ + 1, _ => none

/-- every name of the schema and of the document, after the reserved ones -/
def nameTable (st dt : Toks) : List String := (reservedNames ++ st ++ dt).eraseDups

def families : List (String × List String) :=
  [("c17.ops", ["AmbiguousAnonymousOperation", "OperationNameCollision", "UndefinedRootOperation", "TypeSystemDefinition"]),
   ("c17.frags", ["FragmentNameCollision", "UndefinedTypeInNamedFragmentTypeCondition", "UndefinedTypeInInlineFragmentTypeCondition",
      "InvalidFragmentTarget", "UndefinedFragment", "RecursiveFragmentDefinition", "UnusedFragment", "InvalidFragmentSpread"]),
   ("c17.fields", ["UndefinedField", "SubselectionOnLeaf", "MissingSubselection"]),
   ("c17.args", ["UniqueArgument", "UndefinedArgument", "RequiredArgument"]),
   ("c17.vars", ["UniqueVariable", "VariableInputType", "UndefinedDefinition", "UnusedVariable", "UndefinedVariable", "DisallowedVariableUsage"])]

def run (stream schemaField docField : String) : String :=
  let st := ((String.ofList (decodeField schemaField)).splitOn " ").filter (· ≠ "")
  let dt := ((String.ofList (decodeField docField)).splitOn " ").filter (· ≠ "")
  match schema st, rdefs (dt.length + 2) dt with
  | some s, some ast =>
    let tbl := nameTable (st.map fun t => t) (dt.flatMap fun t => [t, String.ofList (t.toList.drop 1)])
    let structural := (Standalone.validate (Standalone.currentParams fun _ => []) (some (viewOf tbl s)) (erase tbl ast)).map Standalone.Diag.name
    let typed := (typedDiags s ast).map TDiag.kindName
    match families.find? (·.1 == stream) with
    | some (_, ks) =>
      let mine := ((structural ++ typed).filter ks.contains).mergeSort (fun a b => decide (a ≤ b))
      if mine.isEmpty then "ok" else ",".intercalate mine
    | none => "unknown-stream"
  | _, _ => "bad-case"

end Fam


/-! ### `c17.expand` -/
namespace Exp
open Apollo.Expand

def esels : Nat → List String → Option (List ESel × List String)
  | 0, _ => none
  | fuel + 1, ts =>
    match ts with
    | "." :: r => some ([], r)
    | "I" :: ty :: r => do
      let (inner, r) ← esels fuel r
      let (rest, r) ← esels fuel r
      pure (.inline ty inner :: rest, r)
    | t :: r =>
      match t.toList with
      | 'F' :: ds => do
        let id ← (String.ofList ds).toNat?
        let (rest, r) ← esels fuel r
        pure (.field id :: rest, r)
      | 'S' :: nm => do
        let (rest, r) ← esels fuel r
        pure (.spread (String.ofList nm) :: rest, r)
      | _ => none
    | [] => none

def frags (fuel : Nat) : Nat → List String → Option (Frags × List String)
  | 0, ts => some ([], ts)
  | k + 1, n :: tc :: r => do
    let (b, r) ← esels fuel r
    let (more, r) ← frags fuel k r
    pure ((n, (tc, b)) :: more, r)
  | _ + 1, _ => none

def run (field : String) : String :=
  let ts := ((String.ofList (decodeField field)).splitOn " ").filter (· ≠ "")
  match ts with
  | c :: r =>
    match c.toNat? with
    | some k =>
      match frags (ts.length + 2) k r with
      | some (fs, root :: r2) =>
        match esels (ts.length + 2) r2 with
        | some (body, []) =>
          let out := ((expand fs [(root, body)]).map fun (ty, id) => ty ++ "." ++ toString id).mergeSort (fun a b => decide (a ≤ b))
          if out.isEmpty then "-" else " ".intercalate out
        | _ => "bad-case"
      | _ => "bad-case"
    | none => "bad-case"
  | [] => "bad-case"

end Exp


/-! ### `c17.values` -/
namespace XVal
open Apollo.ExecValues Driver.D14b

def varOf (s : String) : Option XVarDef :=
  match s.splitOn "/" with
  | [n, t, d] => (tyOf t).map fun t =>
      { name := n, ty := t, default := if d == "n" then .null else if d == "v" then .nonNullValue else .absent }
  | _ => none

def run (env vars ty hd v : String) : String :=
  let envS := String.ofList (decodeField env)
  let varsS := String.ofList (decodeField vars)
  match (splitNE envS ";").mapM typeDefOf, (splitNE varsS "+").mapM varOf, tyOf (String.ofList (decodeField ty)), valueOf (String.ofList (decodeField v)) with
  | some types, some vs, some ty, some v =>
    let ds := sortStrs ((argValueDiags ⟨types⟩ vs ty (String.ofList (decodeField hd) == "1") v).map XDiag.kindName)
    if ds.isEmpty then "ok" else ",".intercalate ds
  | _, _, _, _ => "bad-case"

end XVal

/-- streams of property C17 are named `c17.<name>` -/
def c17 (stream : String) (fs : List String) : String :=
  match stream, fs with
  | "c17.samevalue", [a, b] =>
    match c17ValueAll (String.ofList (decodeField a)), c17ValueAll (String.ofList (decodeField b)) with
    -- field_a is the first selection: `same_value(&other_arg.value, &arg.value)`
    | some va, some vb => if sameValue vb va then "same" else "differ"
    | _, _ => "bad-case"
  | "c17.shape", [a, b] =>
    match Ty.decode (String.ofList (decodeField a)), Ty.decode (String.ofList (decodeField b)) with
    | some ta, some tb => if sameOutputTypeShape c17ShapeKind ta tb then "ok" else "conflict"
    | _, _ => "bad-case"
  | "c17.subscription", [frags, op] =>
    let fl := (((String.ofList (decodeField frags)).splitOn "|").filter (· ≠ "")).map c17SelsAll
    if fl.any Option.isNone then "bad-case"
    else match c17SelsAll (String.ofList (decodeField op)) with
      | none => "bad-case"
      | some op => subscriptionVerdict (fl.filterMap id) op
  | "c17.merge", [fs] =>
    match c17AFieldsAll (String.ofList (decodeField fs)) with
    | some fs => if xingCanMerge 128 fs then "ok" else "conflict"
    | none => "bad-case"
  | "c17.mergecached", [fs] =>
    -- the algorithm with the validator's cache and guards (Model/ExecValidationCache.lean)
    match c17AFieldsAll (String.ofList (decodeField fs)) with
    | some fs => if xingCachedDoc AField.beqList 128 [fs] then "ok" else "conflict"
    | none => "bad-case"
  | "c17.expand", [e] => Exp.run e
  | "c17.values", [env, vars, ty, hd, v] => XVal.run env vars ty hd v
  | "c17.ops", [sc, d] => Fam.run "c17.ops" sc d
  | "c17.frags", [sc, d] => Fam.run "c17.frags" sc d
  | "c17.fields", [sc, d] => Fam.run "c17.fields" sc d
  | "c17.args", [sc, d] => Fam.run "c17.args" sc d
  | "c17.vars", [sc, d] => Fam.run "c17.vars" sc d
  | "c17.mergespec", [fs] =>
    match c17AFieldsAll (String.ofList (decodeField fs)) with
    | some fs => if Apollo.Spec.ExecVal.documentFieldsCanMerge 128 fs then "ok" else "conflict"
    | none => "bad-case"
  | "c17.unusedfrag", [op, g] =>
    let opl := c17NatList (String.ofList (decodeField op))
    let parts := (String.ofList (decodeField g)).splitOn "|"
    let frags := (parts.take (parts.length - 1)).map c17NatList
    toString (unusedCount frags [opl])
  | "c17.perop", [ops, g] =>
    let oparts := (String.ofList (decodeField ops)).splitOn "/"
    let opl := (oparts.take (oparts.length - 1)).map c17NatList
    let parts := (String.ofList (decodeField g)).splitOn "|"
    let frags := (parts.take (parts.length - 1)).map c17NatList
    toString (validationCount frags opl)
  | _, _ => "bad-case"

end Driver
