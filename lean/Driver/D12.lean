import ApolloModel.Model.Proto
open Apollo Apollo.Proto
namespace Driver

/-- streams of property C12 are named `c12.<name>` -/
def c12 (_stream : String) (_fs : List String) : String := "unknown-stream"

end Driver
