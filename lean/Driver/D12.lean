import ApolloModel.Model.Proto
import ApolloModel.Model.SchemaSerialize
import Driver.D13
open Apollo Apollo.Proto Apollo.SchemaBuild Apollo.SchemaSerialize
namespace Driver

/-
stream of property C12 (written by harness/src/p12.rs)
  c12.roundtrip  <sources, encoded as for c13.schema>
answer: the definitions `Schema::to_ast` produces (names only) and the order-sensitive dump of the schema
re-built from them (extension identities numbered by first appearance), plus its number of build errors.
-/

def tagStr : DefTag → String
  | .schemaDef => "S" | .schemaExt => "X" | .directiveDef => "D"
  | .typeDef k => "T" ++ kindChar k | .typeExt k => "E" ++ kindChar k
  | .operation => "O" | .fragment => "F"

def itemNames (is : List Item) : String :=
  ",".intercalate (is.map (fun i => if i.target.isEmpty then i.name else i.name ++ "=" ++ i.target))

def defStr (d : Def) : String :=
  tagStr d.tag ++ " " ++ d.name ++ "{d:" ++ itemNames d.directives ++ "}{i:" ++ itemNames d.interfaces ++ "}{m:"
    ++ itemNames d.members ++ "}"

def ordOrigin (seen : List Pos) : Option Pos → String
  | none => "d"
  | some p => "e" ++ toString (seen.findIdx (· == p))

def ordComp (seen : List Pos) (c : Comp) : String :=
  (if c.target.isEmpty then c.name else c.target) ++ "^" ++ ordOrigin seen c.origin

def ordComps (seen : List Pos) (cs : List Comp) : String := ",".intercalate (cs.map (ordComp seen))

/-- the dump of harness `dump_schema(…, Mode::Ordinal)` -/
def ordinalDump (r : Builder) : String :=
  let ts := r.types.filter (fun t => !(t.builtin && bodyEmpty t.body))
  let roots := rootsInOrder r.schemaDef
  let seen := firstOcc ((ts.flatMap (fun t => extOrigins t.body)) ++ r.schemaDef.body.directives.filterMap (·.origin)
    ++ roots.filterMap (·.origin))
  let root (op : String) : String :=
    match r.schemaDef.body.members.find? (fun c => c.name == op) with
    | some c => c.target ++ "^" ++ ordOrigin seen c.origin
    | none => "-"
  "T[" ++ " ".intercalate (ts.map (fun t => t.name ++ "/" ++ kindChar t.kind ++ "/" ++ (if t.builtin then "-" else "_")
      ++ "{d:" ++ ordComps seen t.body.directives ++ "}{i:" ++ ordComps seen t.body.interfaces ++ "}{m:"
      ++ ordComps seen t.body.members ++ "}"))
    ++ "]S[_{d:" ++ ordComps seen r.schemaDef.body.directives ++ "}{q:" ++ root "query" ++ "}{m:" ++ root "mutation"
    ++ "}{s:" ++ root "subscription" ++ "}]D["
    ++ ",".intercalate ((r.directiveDefs.filter (fun d => !d.builtin)).map (fun d => d.name)) ++ "]"

def c12 (stream : String) (fs : List String) : String :=
  match stream, fs with
  | "c12.roundtrip", [srcs] =>
    match sourcesOf (String.ofList (decodeField srcs)) with
    | some srcs =>
      let s := build (Builder.new false false) srcs
      if !s.errors.isEmpty then "build-errors"
      else
        let r := reparse s
        "AST[" ++ ";".intercalate ((toAst s).map defStr) ++ "]RT:" ++ ordinalDump r ++ "E[" ++ toString r.errors.length ++ "]"
    | none => "bad-case"
  | _, _ => "unknown-stream"

end Driver
