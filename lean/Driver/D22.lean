import ApolloModel.Model.Proto
import ApolloModel.Model.Determinism
open Apollo Apollo.Proto Apollo.Guards Apollo.Det
namespace Driver

def parseVarDefs (s : String) : List VarDef :=
  ((s.splitOn ",").filter (· ≠ "")).filterMap fun e =>
    match e.splitOn "@" with
    | [n, o] => some { name := n.toNat?.getD 0, offset := o.toNat?.getD 0 }
    | _ => none

def c22 (stream : String) (fs : List String) : String :=
  match stream, fs with
  | "unusedvars", [vars, used] =>
    let vs := parseVarDefs vars
    let us := ((used.splitOn ",").filter (· ≠ "")).map (fun x => x.toNat?.getD 0)
    let out := validateUnused [] 1 vs (fun n => us.contains n) List.reverse
    ",".intercalate (out.map (fun p => toString p.2))
  | _, _ => "bad-case"

end Driver
