import ApolloModel.Model.Proto
import ApolloModel.Model.Determinism
open Apollo Apollo.Proto Apollo.Guards Apollo.Det
namespace Driver

def parseVarDefs (s : String) : List VarDef :=
  ((s.splitOn ",").filter (· ≠ "")).filterMap fun e =>
    match e.splitOn "@" with
    | [n, o] => some { name := n.toNat?.getD 0, offset := o.toNat?.getD 0 }
    | _ => none

def c22 (stream : String) (fs : List String) : String :=
  match stream, fs with
  | "unusedvars", [vars, used] =>
    let vs := parseVarDefs vars
    let us := ((used.splitOn ",").filter (· ≠ "")).map (fun x => x.toNat?.getD 0)
    let out := validateUnused [] 1 vs (fun n => us.contains n) List.reverse
    ",".intercalate (out.map (fun p => toString p.2))
  | "restore", [types, refs] =>
    -- keys of `schema.types` before validation, the built-in scalars referenced; answer: the keys afterwards,
    -- the restored ones (appended in hash order) sorted
    let nums (x : String) := ((x.splitOn ",").filter (· ≠ "")).map (fun y => y.toNat?.getD 0)
    let ts := nums types
    let final := finalTypes [0, 1, 2, 3, 4] ts (nums refs) id
    let kept := final.filter (fun t => ts.contains t)
    let restored := (final.filter (fun t => !ts.contains t)).mergeSort (fun a b => a ≤ b)
    ",".intercalate ((kept ++ restored).map toString)
  | _, _ => "bad-case"

end Driver
