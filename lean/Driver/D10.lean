import ApolloModel.Model.Proto
import ApolloModel.Model.Numbers
import ApolloModel.Model.Types
open Apollo Apollo.Proto Apollo.Num
namespace Driver

def parseInt? (s : String) : Option Int :=
  match s.toList with
  | '-' :: rest => (String.ofList rest).toNat?.map fun n => -(n : Int)
  | _ => s.toNat?.map fun n => (n : Int)

def c10 (stream : String) (fs : List String) : String :=
  match stream, fs with
  | "lit", [s] =>
    let cs := decodeField s
    s!"{boolStr (isValidName cs)} {boolStr (validInt cs)} {boolStr (validFloat cs)}"
  | "i32", [v] =>
    match parseInt? v with
    | some i => String.ofList (intToString i)
    | none => "bad-case"
  | "f64fix", [t] => String.ofList (floatFixup (decodeField t))
  | "typrint", [t] =>
    match Ty.decode t with
    | some t => t.print
    | none => "bad-case"
  | _, _ => "bad-case"

end Driver
