import ApolloModel.Model.Proto
import ApolloModel.Model.Numbers
import ApolloModel.Model.Types
import ApolloModel.Model.NumbersParse
import ApolloModel.Model.ParserEntry
import Driver.D08
open Apollo Apollo.Proto Apollo.Num
namespace Driver

def parseInt? (s : String) : Option Int :=
  match s.toList with
  | '-' :: rest => (String.ofList rest).toNat?.map fun n => -(n : Int)
  | _ => s.toNat?.map fun n => (n : Int)

/-- `Display for Type` on the parser-side type (same function as `Ast.tyText`, Proofs/TypeText.lean) -/
def tyTextD : Ast.Ty → List Char
  | .named n => n
  | .nonNullNamed n => n ++ ['!']
  | .list t => '[' :: tyTextD t ++ [']']
  | .nonNullList t => '[' :: tyTextD t ++ [']', '!']

def toAstTy : Ty → Ast.Ty
  | .named n => .named n.toList
  | .nonNullNamed n => .nonNullNamed n.toList
  | .list t => .list (toAstTy t)
  | .nonNullList t => .nonNullList (toAstTy t)

def encAstTy : Ast.Ty → String
  | .named n => "n" ++ String.ofList n ++ ";"
  | .nonNullNamed n => "N" ++ String.ofList n ++ ";"
  | .list t => "l" ++ encAstTy t
  | .nonNullList t => "L" ++ encAstTy t

def astTySize : Ast.Ty → Nat
  | .named _ | .nonNullNamed _ => 1
  | .list t | .nonNullList t => astTySize t + 1

def c10 (stream : String) (fs : List String) : String :=
  match stream, fs with
  | "lit", [s] =>
    let cs := decodeField s
    s!"{boolStr (isValidName cs)} {boolStr (validInt cs)} {boolStr (validFloat cs)}"
  | "i32", [v] =>
    match parseInt? v with
    | some i => String.ofList (intToString i)
    | none => "bad-case"
  | "f64fix", [t] => String.ofList (floatFixup (decodeField t))
  | "typrint", [t] =>
    match Ty.decode t with
    | some t => t.print
    | none => "bad-case"
  | "typert", [t] =>
    match Ty.decode t with
    | some t =>
      let aty := toAstTy t
      let text := tyTextD aty
      let errs := (Parse.parse .type none 500 text).errors
      let back := (sigToks (Lex.lex none text)).bind fun ts => Ast.pTy (astTySize aty) ts
      String.ofList text ++ " " ++ (if errs.isEmpty then "ok" else "err") ++ " " ++
        (match errs.isEmpty, back with
         | true, some (t', []) => encAstTy t'
         | _, _ => "-")
    | none => "bad-case"
  | "i32parse", [s] =>
    match tryToI32 (decodeField s) with
    | some v => s!"ok:{v}"
    | none => "err"
  | _, _ => "bad-case"

end Driver
