import ApolloModel.Model.Proto
import ApolloModel.Model.VariableUsage
open Apollo Apollo.Proto
namespace Driver

def c29 (stream : String) (fs : List String) : String :=
  match stream, fs with
  | "assignable", [a, b] =>
    match Ty.decode a, Ty.decode b with
    | some a, some b => boolStr (Gen.isAssignableTo a b)
    | _, _ => "bad-case"
  | "usage", [v, d, l, ld] =>
    let d := match d with
      | "absent" => some Spec.DefaultValue.absent
      | "null" => some .null
      | "value" => some .nonNullValue
      | _ => none
    match Ty.decode v, d, Ty.decode l with
    | some v, some d, some l => boolStr (Model.isVariableUsageAllowed v d l (parseBool ld))
    | _, _, _ => "bad-case"
  | "implfield", [rel, i, t] =>
    let names := ["A", "B", "C"]
    let bits := rel.toList
    let sub (a c : Name) : Bool :=
      match names.idxOf? a, names.idxOf? c with
      | some i, some j => bits.getD (i * 3 + j) '0' == '1'
      | _, _ => false
    match Ty.decode i, Ty.decode t with
    | some i, some t => boolStr (Gen.isValidImplementationFieldType sub i t)
    | _, _ => "bad-case"
  | _, _ => "bad-case"

end Driver
