import ApolloModel.Model.Proto
open Apollo Apollo.Proto
namespace Driver

/-- streams of property C32 are named `c32.<name>` -/
def c32 (_stream : String) (_fs : List String) : String := "unknown-stream"

end Driver
