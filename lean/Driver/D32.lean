import ApolloModel.Model.Proto
import ApolloModel.Model.Smith
open Apollo Apollo.Proto
namespace Driver
namespace C32
open Apollo.SmithGen

def splitNonEmpty (s : String) (sep : String) : List String := (s.splitOn sep).filter (· ≠ "")

def names (s : String) : List Name := (splitNonEmpty s ",").map String.toList

def bytesOf (s : String) : List Nat := (splitNonEmpty s ",").filterMap String.toNat?

def joinNames (l : List Name) : String := ",".intercalate (l.map String.ofList)

/-- insertion sort on the printed form (canonical order for sets) -/
def sortStrs (l : List String) : List String :=
  l.foldl (fun acc x => (acc.takeWhile (· < x)) ++ [x] ++ (acc.dropWhile (· < x))) []

def sortedNames (l : List Name) : String := ",".intercalate (sortStrs (l.map String.ofList))

/-- `Name:P1,P2;+Name:P3` (`+` marks an extension) -/
def decDefs (s : String) : List Def :=
  (splitNonEmpty s ";").map fun d =>
    let ext := d.startsWith "+"
    let d := if ext then (d.drop 1).toString else d
    match d.splitOn ":" with
    | [n, ps] => { name := n.toList, extend := ext, interfaces := names ps }
    | [n] => { name := n.toList, extend := ext, interfaces := [] }
    | _ => { name := [], extend := ext, interfaces := [] }

/-- `Name:S1,S2;…` -/
def decFrags (s : String) : List Frag :=
  (splitNonEmpty s ";").map fun d =>
    match d.splitOn ":" with
    | [n, ps] => { name := n.toList, spreads := names ps }
    | [n] => { name := n.toList, spreads := [] }
    | _ => { name := [], spreads := [] }

def dedupNames (l : List Name) : List Name := l.foldl insertNew []

end C32

open C32 Apollo.SmithGen in
/-- streams of property C32 -/
def c32 (stream : String) (fs : List String) : String :=
  match stream, fs with
  | "c32.typename", [used, bytes, k] =>
    match typeNames (k.toNat?.getD 0) (names (String.ofList (decodeField used))) (bytesOf bytes) [] with
    | some ns => joinNames ns
    | none => "OUT-OF-FUEL"
  | "c32.implements", [defs, bytes] =>
    let ds := decDefs defs
    match implementsInterfaces (graphOf ds) (ds.map (·.name)) (bytesOf bytes) with
    | some ns => sortedNames ns
    | none => "ERR"
  | "c32.closure", [defs] =>
    -- per type (first-occurrence order): its closure without itself, and what is missing from its declarations
    let ds := decDefs defs
    let g := graphOf ds
    ";".intercalate ((dedupNames (ds.map (·.name))).map fun n =>
      let cl := (g.closure n).filter (· != n)
      let missing := cl.filter fun q => !(declared ds n).contains q
      s!"{String.ofList n}:{sortedNames cl}:{sortedNames missing}")
  | "c32.prune", [ops, frags] =>
    let fr := decFrags frags
    let os := (splitNonEmpty ops ";").map names
    joinNames ((prune os fr).map (·.name)) ++ "|" ++ sortedNames (reachable os fr)
  | _, _ => "unknown-stream"

end Driver
