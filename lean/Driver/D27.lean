import ApolloModel.Model.Proto
open Apollo Apollo.Proto
namespace Driver

/-- streams of property C27 are named `c27.<name>` -/
def c27 (_stream : String) (_fs : List String) : String := "unknown-stream"

end Driver
