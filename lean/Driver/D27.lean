import ApolloModel.Model.Proto
import ApolloModel.Model.AsyncExec
open Apollo Apollo.Proto Apollo.Async
namespace Driver

/-- streams of property C27 are named `c27.<name>` -/
def takeTo (stop : Char) (cs : List Char) : String × List Char :=
  (String.ofList (cs.takeWhile (· != stop)), (cs.dropWhile (· != stop)).drop 1)

mutual
/-- `L<v>;` | `E` | `O field* .` | `A item* .`  (harness/src/p27.rs `enc_plan`) -/
def decPlan : Nat → List Char → Option (Plan × List Char)
  | 0, _ => none
  | f + 1, cs =>
    match cs with
    | 'L' :: r =>
      let (n, r1) := takeTo ';' r
      n.toNat?.map fun v => (.leaf v, r1)
    | 'E' :: r => some (.error, r)
    | 'O' :: r =>
      match decFields f r with
      | some (fs, r1) => some (.obj fs, r1)
      | none => none
    | 'A' :: r =>
      match decItems f r with
      | some (is, r1) => some (.list is, r1)
      | none => none
    | _ => none
/-- `F<key>,<delay>,<plan>` … `.` -/
def decFields : Nat → List Char → Option (Fields × List Char)
  | 0, _ => none
  | f + 1, cs =>
    match cs with
    | '.' :: r => some (.nil, r)
    | 'F' :: r =>
      let (key, r1) := takeTo ',' r
      let (d, r2) := takeTo ',' r1
      match d.toNat?, decPlan f r2 with
      | some d, some (p, r3) =>
        match decFields f r3 with
        | some (tl, r4) => some (.cons key d p tl, r4)
        | none => none
      | _, _ => none
    | _ => none
/-- `I<delay>,<plan>` … `.` -/
def decItems : Nat → List Char → Option (Items × List Char)
  | 0, _ => none
  | f + 1, cs =>
    match cs with
    | '.' :: r => some (.nil, r)
    | 'I' :: r =>
      let (d, r1) := takeTo ',' r
      match d.toNat?, decPlan f r1 with
      | some d, some (p, r2) =>
        match decItems f r2 with
        | some (tl, r3) => some (.cons d p tl, r3)
        | none => none
      | _, _ => none
    | _ => none
end

def c27 (stream : String) (fs : List String) : String :=
  match stream, fs with
  | "c27.exec", [plan] =>
    let cs := decodeField plan
    match decFields (cs.length + 2) cs with
    | some (root, []) =>
      let (resp, log, polls) := execute root
      resp.render ++ "|" ++ ",".intercalate log ++ "|" ++ toString polls
    | _ => "bad-case"
  | _, _ => "bad-case"

end Driver
