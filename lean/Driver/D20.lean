import ApolloModel.Model.Proto
import ApolloModel.Model.Standalone
open Apollo Apollo.Proto Apollo.Standalone
namespace Driver

/-! token-stream decoder for the prefix code written by harness/src/p20.rs -/

abbrev Toks := List String

def pNat : Toks → Option (Nat × Toks)
  | t :: ts => t.toNat?.map (·, ts)
  | [] => none

def pOptNat : Toks → Option (Option Nat × Toks)
  | "-" :: ts => some (none, ts)
  | t :: ts => t.toNat?.map (fun n => (some n, ts))
  | [] => none

partial def pMany {α : Type} (p : Toks → Option (α × Toks)) : Nat → Toks → Option (List α × Toks)
  | 0, ts => some ([], ts)
  | n + 1, ts => do
    let (a, ts) ← p ts
    let (as, ts) ← pMany p n ts
    pure (a :: as, ts)

def pCounted {α : Type} (p : Toks → Option (α × Toks)) (ts : Toks) : Option (List α × Toks) := do
  let (n, ts) ← pNat ts
  pMany p n ts

def pValue : Toks → Option (Value × Toks)
  | [] => none
  | t :: ts =>
    match t.toList with
    | 'v' :: r => (String.ofList r).toNat?.map (fun n => (.var n, ts))
    | ['b', 't'] => some (.bool true, ts)
    | ['b', 'f'] => some (.bool false, ts)
    | 's' :: r => (String.ofList r).toNat?.map (fun n => (.str n, ts))
    | ['n'] => some (.null, ts)
    | 'o' :: r => do
      let k ← (String.ofList r).toNat?
      let (vs, ts) ← pMany pNat k ts
      pure (.other vs, ts)
    | _ => none

def pArg (ts : Toks) : Option (Arg × Toks) := do
  let (n, ts) ← pNat ts
  let (v, ts) ← pValue ts
  pure ({ name := n, value := v }, ts)

def pDir (ts : Toks) : Option (Dir × Toks) := do
  let (n, ts) ← pNat ts
  let (as, ts) ← pCounted pArg ts
  pure ({ name := n, args := as }, ts)

partial def pSels : Toks → Option (Sels × Toks)
  | "." :: ts => some (.nil, ts)
  | "F" :: ts => do
    let (n, ts) ← pNat ts
    let (ds, ts) ← pCounted pDir ts
    let (as, ts) ← pCounted pArg ts
    let (sub, ts) ← pSels ts
    let (rest, ts) ← pSels ts
    pure (.field n ds as sub rest, ts)
  | "S" :: ts => do
    let (n, ts) ← pNat ts
    let (ds, ts) ← pCounted pDir ts
    let (rest, ts) ← pSels ts
    pure (.spread n ds rest, ts)
  | "I" :: ts => do
    let (tc, ts) ← pOptNat ts
    let (ds, ts) ← pCounted pDir ts
    let (sub, ts) ← pSels ts
    let (rest, ts) ← pSels ts
    pure (.inline tc ds sub rest, ts)
  | _ => none

def pVarDef (ts : Toks) : Option (VarDef × Toks) := do
  let (n, ts) ← pNat ts
  let (t, ts) ← pNat ts
  let (ds, ts) ← pCounted pDir ts
  pure ({ name := n, ty := t, dirs := ds }, ts)

partial def pDefs : Toks → Option (List Def)
  | [] => some []
  | "T" :: ts => (pDefs ts).map (Def.typeSystem :: ·)
  | "O" :: k :: ts => do
    let ty ← (match k with | "q" => some OpType.query | "m" => some .mutation | "s" => some .subscription | _ => none)
    let (name, ts) ← pOptNat ts
    let (vars, ts) ← pCounted pVarDef ts
    let (ds, ts) ← pCounted pDir ts
    let (sels, ts) ← pSels ts
    let rest ← pDefs ts
    pure (.op { ty := ty, name := name, vars := vars, dirs := ds, sels := sels } :: rest)
  | "G" :: ts => do
    let (n, ts) ← pNat ts
    let (tc, ts) ← pNat ts
    let (ds, ts) ← pCounted pDir ts
    let (sels, ts) ← pSels ts
    let rest ← pDefs ts
    pure (.frag { name := n, tc := tc, dirs := ds, sels := sels } :: rest)
  | _ => none

def toks (f : String) : Toks := ((String.ofList (decodeField f)).splitOn " ").filter (· ≠ "")

/-! schema view -/

def pLoc : Toks → Option (Loc × Toks)
  | [] => none
  | t :: ts =>
    match t.toList with
    | ['q'] => some (.query, ts)
    | ['m'] => some (.mutation, ts)
    | ['s'] => some (.subscription, ts)
    | ['f'] => some (.field, ts)
    | ['g'] => some (.fragmentDefinition, ts)
    | ['p'] => some (.fragmentSpread, ts)
    | ['i'] => some (.inlineFragment, ts)
    | ['v'] => some (.variableDefinition, ts)
    | 't' :: r => (String.ofList r).toNat?.map (fun n => (.typeSystem n, ts))
    | _ => none

def pArgDef (ts : Toks) : Option (ArgDef × Toks) := do
  let (n, ts) ← pNat ts
  let (r, ts) ← pNat ts
  pure ({ name := n, required := r == 1 }, ts)

structure SchemaTables where
  roots : List (Option Nat) := []
  kinds : List (Nat × Kind) := []
  fields : List ((Nat × Nat) × FieldDef) := []
  dirs : List (Nat × DirDef) := []

partial def pSchema (acc : SchemaTables) : Toks → Option SchemaTables
  | [] => some acc
  | "R" :: ts => do
    let (q, ts) ← pOptNat ts
    let (m, ts) ← pOptNat ts
    let (s, ts) ← pOptNat ts
    pSchema { acc with roots := [q, m, s] } ts
  | "K" :: n :: k :: ts => do
    let n ← n.toNat?
    let k ← (match k with | "c" => some Kind.composite | "l" => some .leaf | "i" => some .input | _ => none)
    pSchema { acc with kinds := acc.kinds ++ [(n, k)] } ts
  | "Y" :: ts => do
    let (p, ts) ← pNat ts
    let (f, ts) ← pNat ts
    let (t, ts) ← pNat ts
    let (as, ts) ← pCounted pArgDef ts
    pSchema { acc with fields := acc.fields ++ [((p, f), { ty := t, args := as })] } ts
  | "D" :: ts => do
    let (n, ts) ← pNat ts
    let (r, ts) ← pNat ts
    let (ls, ts) ← pCounted pLoc ts
    let (as, ts) ← pCounted pArgDef ts
    pSchema { acc with dirs := acc.dirs ++ [(n, { repeatable := r == 1, locs := ls, args := as })] } ts
  | _ => none

def SchemaTables.toSchema (t : SchemaTables) : Schema :=
  { root := fun o =>
      match o, t.roots with
      | .query, [q, _, _] => q
      | .mutation, [_, m, _] => m
      | .subscription, [_, _, s] => s
      | _, _ => none
    kind := fun n => (t.kinds.find? (fun p => p.1 == n)).map (·.2)
    field := fun p f => (t.fields.find? (fun e => e.1.1 == p && e.1.2 == f)).map (·.2)
    dirDef := fun n => (t.dirs.find? (fun p => p.1 == n)).map (·.2)
    extra := fun _ => [] }

/-- streams of property C20 are named `c20.<name>` -/
def c20 (stream : String) (fs : List String) : String :=
  match stream, fs with
  | "c20.standalone", [doc] =>
    match pDefs (toks doc) with
    | some ast => verdict (validate (currentParams (fun _ => [])) none ast)
    | none => "bad-case"
  | "c20.schema", [schema, doc] =>
    match pSchema {} (toks schema), pDefs (toks doc) with
    | some t, some ast => verdict (validate (currentParams (fun _ => [])) (some t.toSchema) ast)
    | _, _ => "bad-case"
  | _, _ => "unknown-stream"

end Driver
