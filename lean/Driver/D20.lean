import ApolloModel.Model.Proto
open Apollo Apollo.Proto
namespace Driver

/-- streams of property C20 are named `c20.<name>` -/
def c20 (_stream : String) (_fs : List String) : String := "unknown-stream"

end Driver
