import ApolloModel.Model.Proto
import ApolloModel.Model.Introspection
import ApolloModel.Model.IntrospectionFull
import Driver.D26
open Apollo Apollo.Proto Apollo.Introspection Apollo.Exec
namespace Driver

/-! streams of property C24 are named `c24.<name>`; cases written by harness/src/p24.rs -/
namespace D24
open D28

def kindOfText (s : String) : TKind :=
  if s == "SCALAR" then .scalar else if s == "OBJECT" then .object else if s == "INTERFACE" then .interface
  else if s == "UNION" then .union else if s == "ENUM" then .enum else .inputObject

def linkText (l : Link) : String := l.kind.text ++ ":" ++ (l.name.getD "-")

/-- the standard query selects `ofType` nine times below the first `__Type` -/
def typeref (tyField kindField : String) : String :=
  let ts := toks tyField
  match decTy (ts.length + 2) ts with
  | some (t, []) =>
    let k := kindOfText (String.ofList (decodeField kindField))
    " ".intercalate ((chain (fun _ => k) 10 (resolverFor t)).map linkText)
  | _ => "bad-case"

def decElem (t : String) : Option Elem :=
  match t.toList with
  | '+' :: n => some { name := String.ofList n, deprecated := false }
  | '-' :: n => some { name := String.ofList n, deprecated := true }
  | _ => none

def filter (elems incl : String) : String :=
  let es := ((toks elems).filter (· ≠ "")).filterMap decElem
  let arg : Json := if String.ofList (decodeField incl) == "true" then .bool true else if String.ofList (decodeField incl) == "null" then .null else .bool false
  " ".intercalate ((visible (includeDeprecated arg) es).map (·.name))

def decObj (t : String) : ObjInfo :=
  match t.splitOn ":" with
  | [n, impls] => { name := n, implements := (impls.splitOn ",").filter (· ≠ "") }
  | _ => { name := t, implements := [] }

def possible (name kind objs : String) : String :=
  let os := ((toks objs).filter (· ≠ "")).map decObj
  let n := String.ofList (decodeField name)
  match toks kind with
  | "U" :: members => " ".intercalate (D26.sortStr (possibleOfUnion (fun m => os.any (·.name == m)) members))
  | _ => " ".intercalate (D26.sortStr (implementerObjects os n))

/-- `{ a: __typename f b: f ...F z: __typename } fragment F on Q { c: f }` over an initial value whose
    concrete fields all answer `SkipForPartialExecution` -/
def skiproots (fname : String) : String :=
  let f := String.ofList (decodeField fname)
  let nd : Dirs := { skip := none, incl := none }
  let qdef : ObjectDef := { implements := [], fields := [{ name := f, args := [], ty := .named "Int" }] }
  let schema : Exec.Schema := Exec.Schema.mk { types := [] } [("Q", qdef)] [] [] "Q"
  let sels : List Sel := [.field (some "a") "__typename" [] nd [], .field none f [] nd [], .field (some "b") f [] nd [],
    .spread "F" nd, .field (some "z") "__typename" [] nd []]
  let frag : Frag := Frag.mk "Q" [.field (some "c") f [] nd []]
  let env : Env := Env.mk schema [("F", frag)] [] [((0, f), .skip)] 64
  match execute 8 env sels with
  | .outOfFuel => "out-of-fuel"
  | .response r =>
    let keys := match r.data with
      | some m => ",".intercalate (m.map (·.1))
      | none => "<null>"
    "errors=" ++ toString r.errors.length ++ " keys=" ++ keys


/-! ### `c24.full` / `c24.fullfilter`: whole introspection queries evaluated by the model -/
namespace Full

/-- `u<cp>.<cp>…` -/
def decU (t : String) : Option String :=
  match t.toList with
  | 'u' :: rest =>
    if rest.isEmpty then some ""
    else (((String.ofList rest).splitOn ".").mapM (fun (d : String) => d.toNat?.map Char.ofNat)).map String.ofList
  | _ => none

def decOptU : Toks → Option (Option String × Toks)
  | "-" :: r => some (none, r)
  | t :: r => (decU t).map fun x => (some x, r)
  | [] => none

def decDep : Toks → Option (Deprecation × Toks)
  | "-" :: r => some (none, r)
  | "!" :: r => some (some none, r)
  | "r" :: t :: r => (decU t).map fun x => (some (some x), r)
  | _ => none

mutual
def decLit : Nat → Toks → Option (Value × Toks)
  | 0, _ => none
  | fuel + 1, ts =>
    match ts with
    | [] => none
    | t :: rest =>
      match t.toList with
      | ['z'] => some (.null, rest)
      | ['t'] => some (.bool true, rest)
      | ['f'] => some (.bool false, rest)
      | 'i' :: ds => (parseInt (String.ofList ds)).map fun z => (.int z, rest)
      | 'd' :: ds => some (.float (String.ofList ds), rest)
      | 's' :: ds => (decU (String.ofList ds)).map fun x => (.str x, rest)
      | 'e' :: ds => some (.enum (String.ofList ds), rest)
      | 'a' :: ds => do
        let n ← (String.ofList ds).toNat?
        let (xs, r) ← decLits fuel n rest
        pure (.list xs, r)
      | 'o' :: ds => do
        let n ← (String.ofList ds).toNat?
        let (kvs, r) ← decLitFields fuel n rest
        pure (.obj kvs, r)
      | _ => none
def decLits : Nat → Nat → Toks → Option (List Value × Toks)
  | 0, _, _ => none
  | _ + 1, 0, ts => some ([], ts)
  | fuel + 1, k + 1, ts => do
    let (x, r) ← decLit fuel ts
    let (xs, r2) ← decLits fuel k r
    pure (x :: xs, r2)
def decLitFields : Nat → Nat → Toks → Option (List (String × Value) × Toks)
  | 0, _, _ => none
  | _ + 1, 0, ts => some ([], ts)
  | fuel + 1, k + 1, ts =>
    match ts with
    | [] => none
    | key :: rest => do
      let (x, r) ← decLit fuel rest
      let (xs, r2) ← decLitFields fuel k r
      pure ((tail1 key, x) :: xs, r2)
end

def decMany {α : Type} (one : Toks → Option (α × Toks)) : Nat → Toks → Option (List α × Toks)
  | 0, ts => some ([], ts)
  | k + 1, ts => do
    let (x, r) ← one ts
    let (xs, r2) ← decMany one k r
    pure (x :: xs, r2)

def decCount (one : Toks → Option (α × Toks)) : Toks → Option (List α × Toks)
  | c :: r => do
    let n ← c.toNat?
    decMany one n r
  | [] => none

def decName : Toks → Option (String × Toks)
  | t :: r => some (t, r)
  | [] => none

def decInputVal (fuel : Nat) (ts : Toks) : Option (IInputValue × Toks) := do
  let (name, r) ← decName ts
  let (desc, r) ← decOptU r
  let (ty, r) ← decTy fuel r
  let (default, r) ← (match r with
    | "-" :: r2 => some (none, r2)
    | "=" :: r2 => (decLit fuel r2).map fun (v, r3) => (some v, r3)
    | _ => none)
  let (dep, r) ← decDep r
  pure ({ name := name, description := desc, ty := ty, default := default, deprecated := dep }, r)

def decField (fuel : Nat) (ts : Toks) : Option (IField × Toks) := do
  let (name, r) ← decName ts
  let (desc, r) ← decOptU r
  let (args, r) ← decCount (decInputVal fuel) r
  let (ty, r) ← decTy fuel r
  let (dep, r) ← decDep r
  pure ({ name := name, description := desc, args := args, ty := ty, deprecated := dep }, r)

def decEnumVal (ts : Toks) : Option (IEnumValue × Toks) := do
  let (name, r) ← decName ts
  let (desc, r) ← decOptU r
  let (dep, r) ← decDep r
  pure ({ name := name, description := desc, deprecated := dep }, r)

def decType (fuel : Nat) (ts : Toks) : Option (ITypeDef × Toks) := do
  let (name, r) ← decName ts
  let (desc, r) ← decOptU r
  match r with
  | "S" :: r => do
    let (u, r) ← decOptU r
    pure ({ name := name, description := desc, kind := .scalar u }, r)
  | "O" :: r => do
    let (impls, r) ← decCount decName r
    let (fs, r) ← decCount (decField fuel) r
    pure ({ name := name, description := desc, kind := .object impls fs }, r)
  | "I" :: r => do
    let (impls, r) ← decCount decName r
    let (fs, r) ← decCount (decField fuel) r
    pure ({ name := name, description := desc, kind := .interface impls fs }, r)
  | "U" :: r => do
    let (ms, r) ← decCount decName r
    pure ({ name := name, description := desc, kind := .union ms }, r)
  | "E" :: r => do
    let (vs, r) ← decCount decEnumVal r
    pure ({ name := name, description := desc, kind := .enum vs }, r)
  | "N" :: r => do
    let (fs, r) ← decCount (decInputVal fuel) r
    pure ({ name := name, description := desc, kind := .inputObject fs }, r)
  | _ => none

def decDirective (fuel : Nat) (ts : Toks) : Option (IDirective × Toks) := do
  let (name, r) ← decName ts
  let (desc, r) ← decOptU r
  let (args, r) ← decCount (decInputVal fuel) r
  let (rep, r) ← (match r with | "t" :: r2 => some (true, r2) | "f" :: r2 => some (false, r2) | _ => none)
  let (locs, r) ← decCount decName r
  pure ({ name := name, description := desc, args := args, repeatable := rep, locations := locs }, r)

def decOptName : Toks → Option (Option String × Toks)
  | "-" :: r => some (none, r)
  | t :: r => some (some t, r)
  | [] => none

/-- the generator's (user) schema -/
def decSchema (ts : Toks) : Option ISchema := do
  let fuel := ts.length + 2
  let (desc, r) ← decOptU ts
  let (q, r) ← decOptName r
  let (m, r) ← decOptName r
  let (sub, r) ← decOptName r
  let (types, r) ← decCount (decType fuel) r
  let (dirs, r) ← decCount (decDirective fuel) r
  if r.isEmpty then
    pure { description := desc, query := q, mutation := m, subscription := sub, types := types, directives := dirs }
  else none

/-! the queries of harness/src/p24.rs -/
def nd : Dirs := { skip := none, incl := none }
def f (name : String) (sub : List Sel := []) : Sel := .field none name [] nd sub
def fInc (name : String) (v : AVal) (sub : List Sel) : Sel := .field none name [("includeDeprecated", v)] nd sub
def sp (name : String) : Sel := .spread name nd

/-- `kind name ofType { kind name ofType { … } }` with `n` further `ofType` selections -/
def typeRefSels : Nat → List Sel
  | 0 => [f "kind", f "name"]
  | n + 1 => [f "kind", f "name", f "ofType" (typeRefSels n)]

def fullFrags : AList Frag :=
  [("FullType", { cond := "__Type", sub :=
      [f "kind", f "name", f "description", f "specifiedByURL",
       fInc "fields" (.bool true) [f "name", f "description", fInc "args" (.bool true) [sp "InputValue"], f "type" [sp "TypeRef"],
         f "isDeprecated", f "deprecationReason"],
       fInc "inputFields" (.bool true) [sp "InputValue"],
       f "interfaces" [sp "TypeRef"],
       fInc "enumValues" (.bool true) [f "name", f "description", f "isDeprecated", f "deprecationReason"],
       f "possibleTypes" [sp "TypeRef"]] }),
   ("InputValue", { cond := "__InputValue", sub :=
      [f "name", f "description", f "type" [sp "TypeRef"], f "defaultValue", f "isDeprecated", f "deprecationReason"] }),
   ("TypeRef", { cond := "__Type", sub := typeRefSels 9 })]

/-- graphql-js 16 `getIntrospectionQuery` with every option on (`FULL_QUERY`) -/
def fullQuery : List Sel :=
  [f "__schema" [f "description", f "queryType" [f "name"], f "mutationType" [f "name"], f "subscriptionType" [f "name"],
     f "types" [sp "FullType"],
     f "directives" [f "name", f "description", f "isRepeatable", f "locations", fInc "args" (.bool true) [sp "InputValue"]]]]

/-- `FILTER_QUERY` -/
def filterQuery : List Sel :=
  [f "__schema" [
     f "types" [f "name", f "fields" [f "name", fInc "args" (.var "n") [f "name"]], fInc "enumValues" (.bool false) [f "name"],
       f "inputFields" [f "name"]],
     f "directives" [f "name", fInc "args" (.bool false) [f "name"]]]]

/-! canonical digest of a response value (the same function is in harness/src/p24.rs) -/
def fnvByte (h : UInt64) (b : UInt8) : UInt64 := (h ^^^ b.toUInt64) * 0x100000001b3

def fnvStr (h : UInt64) (s : String) : UInt64 := s.toUTF8.foldl fnvByte h

mutual
def hashJson (h : UInt64) : Json → UInt64
  | .null => fnvByte h 0
  | .bool b => fnvByte (fnvByte h 1) (if b then 1 else 0)
  | .int z => fnvByte (fnvStr (fnvByte h 2) (toString z)) 0xff
  | .float t => fnvByte (fnvStr (fnvByte h 6) t) 0xff
  | .str s => fnvByte (fnvStr (fnvByte h 3) s) 0xff
  | .arr xs => fnvByte (hashList (fnvByte h 4) xs) 0xfe
  | .obj kvs => fnvByte (hashFields (fnvByte h 5) kvs) 0xfe
def hashList (h : UInt64) : List Json → UInt64
  | [] => h
  | x :: xs => hashList (hashJson h x) xs
def hashFields (h : UInt64) : List (String × Json) → UInt64
  | [] => h
  | (k, v) :: rest => hashFields (hashJson (fnvByte (fnvStr h k) 0xff) v) rest
end

def digest (j : Json) : String := toString (hashJson 0xcbf29ce484222325 j).toNat

def nameOf : Json → String
  | .obj kvs => match kvs.find? (·.1 == "name") with | some (_, .str n) => n | _ => "?"
  | _ => "?"

/-- one digest per top-level field of `data.__schema`; `types` and `directives` element by element, in
    the order of the response -/
def summary (o : Outcome) : String :=
  match o with
  | .outOfFuel => "out-of-fuel"
  | .response r =>
    let body := match r.data with
      | none => ["data=null"]
      | some m =>
        match AList.get? m "__schema" with
        | some (.obj kvs) =>
          kvs.flatMap fun (k, v) =>
            match v with
            | .arr xs => if k == "types" ∨ k == "directives" then xs.map fun x => k ++ ":" ++ nameOf x ++ "=" ++ digest x else [k ++ "=" ++ digest v]
            | v => [k ++ "=" ++ digest v]
        | _ => ["schema=?"]
    " ".intercalate (("errors=" ++ toString r.errors.length) :: body)

def runFull (schemaField : String) (sels : List Sel) (frags : AList Frag) (vars : AList Json) : String :=
  match decSchema (((String.ofList (decodeField schemaField)).splitOn " ").filter (· ≠ "")) with
  | none => "bad-case"
  | some user => summary (partialExecute 64 4096 (apolloSchema user) frags vars sels)

def nvar (t : String) : AList Json :=
  let v := String.ofList (decodeField t)
  if v == "t" then [("n", .bool true)] else if v == "f" then [("n", .bool false)] else if v == "z" then [("n", .null)] else []

end Full

end D24

def c24 (stream : String) (fs : List String) : String :=
  match stream, fs with
  | "c24.typeref", [t, k] => D24.typeref t k
  | "c24.filter", [es, incl] => D24.filter es incl
  | "c24.possible", [n, k, os] => D24.possible n k os
  | "c24.skiproots", [f] => D24.skiproots f
  | "c24.full", [sch] => D24.Full.runFull sch D24.Full.fullQuery D24.Full.fullFrags []
  | "c24.fullfilter", [sch, n] => D24.Full.runFull sch D24.Full.filterQuery [] (D24.Full.nvar n)
  | _, _ => "unknown-stream"

end Driver
