import ApolloModel.Model.Proto
import ApolloModel.Model.Introspection
import Driver.D26
open Apollo Apollo.Proto Apollo.Introspection Apollo.Exec
namespace Driver

/-! streams of property C24 are named `c24.<name>`; cases written by harness/src/p24.rs -/
namespace D24
open D28

def kindOfText (s : String) : TKind :=
  if s == "SCALAR" then .scalar else if s == "OBJECT" then .object else if s == "INTERFACE" then .interface
  else if s == "UNION" then .union else if s == "ENUM" then .enum else .inputObject

def linkText (l : Link) : String := l.kind.text ++ ":" ++ (l.name.getD "-")

/-- the standard query selects `ofType` nine times below the first `__Type` -/
def typeref (tyField kindField : String) : String :=
  let ts := toks tyField
  match decTy (ts.length + 2) ts with
  | some (t, []) =>
    let k := kindOfText (String.ofList (decodeField kindField))
    " ".intercalate ((chain (fun _ => k) 10 (resolverFor t)).map linkText)
  | _ => "bad-case"

def decElem (t : String) : Option Elem :=
  match t.toList with
  | '+' :: n => some { name := String.ofList n, deprecated := false }
  | '-' :: n => some { name := String.ofList n, deprecated := true }
  | _ => none

def filter (elems incl : String) : String :=
  let es := ((toks elems).filter (· ≠ "")).filterMap decElem
  let arg : Json := if String.ofList (decodeField incl) == "true" then .bool true else if String.ofList (decodeField incl) == "null" then .null else .bool false
  " ".intercalate ((visible (includeDeprecated arg) es).map (·.name))

def decObj (t : String) : ObjInfo :=
  match t.splitOn ":" with
  | [n, impls] => { name := n, implements := (impls.splitOn ",").filter (· ≠ "") }
  | _ => { name := t, implements := [] }

def possible (name kind objs : String) : String :=
  let os := ((toks objs).filter (· ≠ "")).map decObj
  let n := String.ofList (decodeField name)
  match toks kind with
  | "U" :: members => " ".intercalate (D26.sortStr (possibleOfUnion (fun m => os.any (·.name == m)) members))
  | _ => " ".intercalate (D26.sortStr (implementerObjects os n))

/-- `{ a: __typename f b: f ...F z: __typename } fragment F on Q { c: f }` over an initial value whose
    concrete fields all answer `SkipForPartialExecution` -/
def skiproots (fname : String) : String :=
  let f := String.ofList (decodeField fname)
  let nd : Dirs := { skip := none, incl := none }
  let qdef : ObjectDef := { implements := [], fields := [{ name := f, args := [], ty := .named "Int" }] }
  let schema : Exec.Schema := Exec.Schema.mk { types := [] } [("Q", qdef)] [] [] "Q"
  let sels : List Sel := [.field (some "a") "__typename" [] nd [], .field none f [] nd [], .field (some "b") f [] nd [],
    .spread "F" nd, .field (some "z") "__typename" [] nd []]
  let frag : Frag := Frag.mk "Q" [.field (some "c") f [] nd []]
  let env : Env := Env.mk schema [("F", frag)] [] [((0, f), .skip)] 64
  match execute 8 env sels with
  | .outOfFuel => "out-of-fuel"
  | .response r =>
    let keys := match r.data with
      | some m => ",".intercalate (m.map (·.1))
      | none => "<null>"
    "errors=" ++ toString r.errors.length ++ " keys=" ++ keys

end D24

def c24 (stream : String) (fs : List String) : String :=
  match stream, fs with
  | "c24.typeref", [t, k] => D24.typeref t k
  | "c24.filter", [es, incl] => D24.filter es incl
  | "c24.possible", [n, k, os] => D24.possible n k os
  | "c24.skiproots", [f] => D24.skiproots f
  | _, _ => "unknown-stream"

end Driver
