import ApolloModel.Model.Proto
open Apollo Apollo.Proto
namespace Driver

/-- streams of property C24 are named `c24.<name>` -/
def c24 (_stream : String) (_fs : List String) : String := "unknown-stream"

end Driver
