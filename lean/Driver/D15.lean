import ApolloModel.Model.Proto
open Apollo Apollo.Proto
namespace Driver

/-- streams of property C15 are named `c15.<name>` -/
def c15 (_stream : String) (_fs : List String) : String := "unknown-stream"

end Driver
