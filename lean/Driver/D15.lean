import ApolloModel.Model.Proto
import ApolloModel.Model.SchemaInvariants
import ApolloModel.Model.Implementation
import Driver.D14
open Apollo Apollo.Proto Apollo.SchemaValidation Apollo.SchemaInvariants Apollo.Implementation
namespace Driver

/- streams of property C15 are named `c15.<name>` (cases written by harness/src/p15.rs) -/

/-- `name;b|u;s|o;ref,ref` -/
def decodeScalarsType (s : String) : Scalars.Name × Scalars.TypeDef :=
  match s.splitOn ";" with
  | [n, b, k, refs] => (n, { isBuiltIn := b == "b", isScalar := k == "s", refs := (refs.splitOn ",").filter (· ≠ "") })
  | _ => ("", { isBuiltIn := false, isScalar := false, refs := [] })

/-- `ft,ft;at,at;ift;m,m` -/
def decodeRefs (s : String) : TypeRefs :=
  match s.splitOn ";" with
  | [a, b, c, d] => ⟨strList a, strList b, strList c, strList d⟩
  | _ => ⟨[], [], [], []⟩

def bit (b : Bool) : String := if b then "1" else "0"

def c15 (stream : String) (fs : List String) : String :=
  match stream, fs.map fun f => String.ofList (decodeField f) with
  | "c15.inv", [q, m, sub, imp, ig, types, drefs] =>
    let s : ISchema := if imp == "" then [] else (imp.splitOn "|").map decodeTypeInfo
    let g : IGraph := if ig == "-" then [] else decodeIGraph ig
    let sc : Scalars.Schema :=
      { types := if types == "" then [] else (types.splitOn "|").map decodeScalarsType,
        directiveRefs := (drefs.splitOn ",").filter (· ≠ "") }
    bit (rootsInv (decodeRoot q) (decodeRoot m) (decodeRoot sub)) ++ bit (implementsKindInv s) ++ bit (transInv s)
      ++ bit (inputInv g) ++ bit (scalarsInv sc)
  | "c15.inv", [q, m, sub, imp, ig, types, drefs, tfields, subs, kenv, refs] =>
    let s : ISchema := if imp == "" then [] else (imp.splitOn "|").map decodeTypeInfo
    let g : IGraph := if ig == "-" then [] else decodeIGraph ig
    let sc : Scalars.Schema :=
      { types := if types == "" then [] else (types.splitOn "|").map decodeScalarsType,
        directiveRefs := (drefs.splitOn ",").filter (· ≠ "") }
    match ((tfields.splitOn "|").map decodeFields).mapM id with
    | none => "bad-case"
    | some fs =>
      bit (rootsInv (decodeRoot q) (decodeRoot m) (decodeRoot sub)) ++ bit (implementsKindInv s) ++ bit (transInv s)
        ++ bit (inputInv g) ++ bit (scalarsInv sc)
        ++ bit (contractsInv (decodeSub subs) s fs) ++ bit (kindsInv (decodeKindEnv kenv) ((refs.splitOn "|").map decodeRefs))
  | _, _ => "bad-case"

end Driver
