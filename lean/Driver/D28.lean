import ApolloModel.Model.Proto
import ApolloModel.Model.Coercion
open Apollo Apollo.Proto Apollo.Coercion
namespace Driver

/-! streams of property C28 are named `c28.<name>`; token code written by harness/src/p28.rs -/
namespace D28

abbrev Toks := List String

def flatten : List (String × List String) → List String
  | [] => []
  | (k, v) :: rest => ("k" ++ k) :: v ++ flatten rest

def tail1 (t : String) : String := String.ofList (t.toList.drop 1)

def parseInt (t : String) : Option Int :=
  match t.toList with
  | '-' :: ds => (String.ofList ds).toNat?.map fun n => -(Int.ofNat n)
  | ds => (String.ofList ds).toNat?.map Int.ofNat

/-- type reference: `l` / `L` prefix tokens, then `n<name>` / `N<name>` -/
def decTy : Nat → Toks → Option (Ty × Toks)
  | 0, _ => none
  | fuel + 1, ts =>
    match ts with
    | [] => none
    | t :: rest =>
      if t == "l" then (decTy fuel rest).map fun (x, r) => (.list x, r)
      else if t == "L" then (decTy fuel rest).map fun (x, r) => (.nonNullList x, r)
      else match t.toList with
        | 'n' :: nm => some (.named (String.ofList nm), rest)
        | 'N' :: nm => some (.nonNullNamed (String.ofList nm), rest)
        | _ => none

mutual
/-- JSON value / constant literal (`e<name>` only in literals) -/
def decVal : Nat → Toks → Option (Value × Toks)
  | 0, _ => none
  | fuel + 1, ts =>
    match ts with
    | [] => none
    | t :: rest =>
      match t.toList with
      | ['z'] => some (.null, rest)
      | ['t'] => some (.bool true, rest)
      | ['f'] => some (.bool false, rest)
      | 'i' :: ds => (parseInt (String.ofList ds)).map fun z => (.int z, rest)
      | 'd' :: ds => some (.float (String.ofList ds), rest)
      | 's' :: ds => some (.str (String.ofList ds), rest)
      | 'e' :: ds => some (.enum (String.ofList ds), rest)
      | 'a' :: ds => do
        let n ← (String.ofList ds).toNat?
        let (xs, r) ← decVals fuel n rest
        pure (.list xs, r)
      | 'o' :: ds => do
        let n ← (String.ofList ds).toNat?
        let (kvs, r) ← decFields fuel n rest
        pure (.obj kvs, r)
      | _ => none
def decVals : Nat → Nat → Toks → Option (List Value × Toks)
  | 0, _, _ => none
  | _ + 1, 0, ts => some ([], ts)
  | fuel + 1, k + 1, ts => do
    let (x, r) ← decVal fuel ts
    let (xs, r2) ← decVals fuel k r
    pure (x :: xs, r2)
def decFields : Nat → Nat → Toks → Option (List (String × Value) × Toks)
  | 0, _, _ => none
  | _ + 1, 0, ts => some ([], ts)
  | fuel + 1, k + 1, ts =>
    match ts with
    | [] => none
    | key :: rest => do
      let (x, r) ← decVal fuel rest
      let (xs, r2) ← decFields fuel k r
      pure ((tail1 key, x) :: xs, r2)
end

/-- `<name-token> <type> (- | = <literal>)` -/
def decDef (fuel : Nat) (ts : Toks) : Option (InputDef × Toks) :=
  match ts with
  | [] => none
  | nameTok :: rest => do
    let (ty, r) ← decTy fuel rest
    match r with
    | "-" :: r2 => pure ({ name := tail1 nameTok, ty := ty, default := none }, r2)
    | "=" :: r2 =>
      let (d, r3) ← decVal fuel r2
      pure ({ name := tail1 nameTok, ty := ty, default := some d }, r3)
    | _ => none

def decDefs (fuel : Nat) : Nat → Toks → Option (List InputDef × Toks)
  | 0, ts => some ([], ts)
  | k + 1, ts => do
    let (d, r) ← decDef fuel ts
    let (ds, r2) ← decDefs fuel k r
    pure (d :: ds, r2)

def decNames : Nat → Toks → Option (List String × Toks)
  | 0, ts => some ([], ts)
  | k + 1, t :: rest => do
    let (xs, r) ← decNames k rest
    pure (tail1 t :: xs, r)
  | _ + 1, [] => none

def decTypes (fuel : Nat) : Nat → Toks → Option (AList TypeDef × Toks)
  | 0, ts => some ([], ts)
  | k + 1, ts =>
    match ts with
    | [] => none
    | t :: rest =>
      match t.toList with
      | 'S' :: nm => do
        let (more, r) ← decTypes fuel k rest
        pure ((String.ofList nm, .scalar) :: more, r)
      | 'O' :: nm => do
        let (more, r) ← decTypes fuel k rest
        pure ((String.ofList nm, .output) :: more, r)
      | 'E' :: nm =>
        match rest with
        | cnt :: rest2 => do
          let c ← cnt.toNat?
          let (vals, r) ← decNames c rest2
          let (more, r2) ← decTypes fuel k r
          pure ((String.ofList nm, .enum vals) :: more, r2)
        | [] => none
      | 'I' :: nm =>
        match rest with
        | cnt :: rest2 => do
          let c ← cnt.toNat?
          let (fs, r) ← decDefs fuel c rest2
          let (more, r2) ← decTypes fuel k r
          pure ((String.ofList nm, .input fs) :: more, r2)
        | [] => none
      | _ => none

def toks (field : String) : Toks := (String.ofList (decodeField field)).splitOn " "

def insertS (k : String) (v : List String) : List (String × List String) → List (String × List String)
  | [] => [(k, v)]
  | (k', v') :: rest => if k < k' then (k, v) :: (k', v') :: rest else (k', v') :: insertS k v rest

mutual
/-- canonical printing: keys sorted at every level -/
def render : Json → List String
  | .null => ["z"]
  | .bool b => [if b then "t" else "f"]
  | .int z => ["i" ++ toString z]
  | .float t => ["d" ++ t]
  | .str s => ["s" ++ s]
  | .arr xs => ("a" ++ toString xs.length) :: renderList xs
  | .obj kvs => ("o" ++ toString kvs.length) :: flatten (sortFields kvs)
def renderList : List Json → List String
  | [] => []
  | x :: xs => render x ++ renderList xs
def sortFields : List (String × Json) → List (String × List String)
  | [] => []
  | (k, v) :: rest => insertS k (render v) (sortFields rest)
end

def cv (schema vars values : String) : String :=
  let st := toks schema
  let vt := toks vars
  let jt := toks values
  let fuel := st.length + vt.length + jt.length + 4
  match st, vt with
  | sc :: srest, vc :: vrest =>
    match sc.toNat?, vc.toNat? with
    | some sn, some vn =>
      match decTypes fuel sn srest, decDefs fuel vn vrest, decVal fuel jt with
      | some (types, []), some (defs, []), some (.obj kvs, []) =>
        match coerceVariableValues { types := types } defs (Value.toJsonFields kvs) with
        | .ok r => " ".intercalate ("ok" :: render (.obj r))
        | .error .outOfFuel => "out-of-fuel"
        | .error _ => "err"
      | _, _, _ => "bad-case"
    | _, _ => "bad-case"
  | _, _ => "bad-case"

end D28

def c28 (stream : String) (fs : List String) : String :=
  match stream, fs with
  | "c28.cv", [schema, vars, values] => D28.cv schema vars values
  | _, _ => "unknown-stream"

end Driver
