import ApolloModel.Model.Proto
open Apollo Apollo.Proto
namespace Driver

/-- streams of property C28 are named `c28.<name>` -/
def c28 (_stream : String) (_fs : List String) : String := "unknown-stream"

end Driver
