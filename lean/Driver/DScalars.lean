import ApolloModel.Model.Proto
import ApolloModel.Model.BuiltinScalars
open Apollo Apollo.Proto Apollo.Scalars
namespace Driver

def sortNames (l : List String) : List String := (l.toArray.qsort (· < ·)).toList

/-- `name:b:s:ref,ref;name:…|dirref,dirref` -/
def parseScalarSchema (s : String) : Option Schema :=
  match s.splitOn "|" with
  | [tys, drefs] =>
    let types := ((tys.splitOn ";").filter (· ≠ "")).filterMap fun e =>
      match e.splitOn ":" with
      | [n, b, sc, refs] => some (n, ({ isBuiltIn := b == "1", isScalar := sc == "1", refs := (refs.splitOn ",").filter (· ≠ "") } : TypeDef))
      | _ => none
    some { types := types, directiveRefs := (drefs.splitOn ",").filter (· ≠ "") }
  | _ => none

def cScalars (stream : String) (fs : List String) : String :=
  match stream, fs with
  | "scalars", [enc] =>
    match parseScalarSchema (String.ofList (decodeField enc)) with
    | some s => ",".intercalate ((bookkeeping sortNames s).types.map (·.1))
    | none => "bad-case"
  | _, _ => "bad-case"

end Driver
