import ApolloModel.Model.Proto
import ApolloModel.Model.ParserEntry
open Apollo Apollo.Proto Apollo.Parse
namespace Driver

partial def showElem : Rowan.Elem → String
  | .tok k t => k ++ "#" ++ ",".intercalate (t.map fun c => toString c.toNat)
  | .node k cs => "(" ++ k ++ (cs.foldl (fun acc c => acc ++ " " ++ showElem c) "") ++ ")"

def showErr (e : PErr) : String :=
  match e.kind with
  | .lexer | .syntax => s!"E:{e.index}:{e.len}"
  | .eof => s!"F:{e.index}"
  | .limit => s!"L:{e.index}"

def showResult (r : PResult) : String :=
  match r.outcome with
  | .panic _ => "PANIC"
  | .abort .fuel => "ABORT fuel"
  | .abort .stuck => "PANIC"          -- the progress `debug_assert!` is a panic in the test profile
  | .tree root =>
    "T " ++ showElem root ++ " | " ++ ",".intercalate (r.errors.map showErr) ++ s!" | {r.recHigh} {r.tokHigh}"
      ++ (if r.deadBranch then " DEAD" else "")

def cParse (stream : String) (fs : List String) : String :=
  match stream, fs with
  | "parse", [entry, tl, rl, src] =>
    let e := match entry with | "doc" => some Entry.document | "sel" => some .selectionSet | "ty" => some .type | _ => none
    let tl : Option (Option Nat) := if tl == "-" then some none else tl.toNat?.map some
    match e, tl, rl.toNat? with
    | some e, some tl, some rl => showResult (parse e tl rl (decodeField src))
    | _, _, _ => "bad-case"
  | _, _ => "bad-case"

end Driver
