import ApolloModel.Model.Proto
import ApolloModel.Model.MaxDepth
import ApolloModel.Generated.MaxDepthShape
open Apollo Apollo.Proto Apollo.MaxDepth
namespace Driver

/-- prefix code written by harness/src/p25.rs: `L…` `P…` `I…` `S<j>;` and `.` closing a selection set -/
def decodeSels : Nat → List Char → Option (Sels × List Char)
  | 0, _ => none
  | fuel + 1, cs =>
    match cs with
    | '.' :: rest => some (.nil, rest)
    | 'L' :: rest => do
      let (sub, r1) ← decodeSels fuel rest
      let (tl, r2) ← decodeSels fuel r1
      pure (.field true sub tl, r2)
    | 'P' :: rest => do
      let (sub, r1) ← decodeSels fuel rest
      let (tl, r2) ← decodeSels fuel r1
      pure (.field false sub tl, r2)
    | 'I' :: rest => do
      let (sub, r1) ← decodeSels fuel rest
      let (tl, r2) ← decodeSels fuel r1
      pure (.inline sub tl, r2)
    | 'S' :: rest => do
      let digits := rest.takeWhile (· != ';')
      let j ← (String.ofList digits).toNat?
      let (tl, r2) ← decodeSels fuel ((rest.dropWhile (· != ';')).drop 1)
      pure (.spread j tl, r2)
    | _ => none

def decodeSelsAll (s : String) : Option Sels :=
  match decodeSels (s.length + 2) s.toList with
  | some (t, []) => some t
  | _ => none

def c25 (stream : String) (fs : List String) : String :=
  match stream, fs with
  | "maxdepth", [frags, op] =>
    let frags := String.ofList (decodeField frags)
    let op := String.ofList (decodeField op)
    let fl := ((frags.splitOn "|").filter (· ≠ "")).map decodeSelsAll
    if fl.any Option.isNone then "bad-case"
    else
      match decodeSelsAll op with
      | none => "bad-case"
      | some op => verdict Gen.maxListsDepth { frags := fl.filterMap id } op
  | _, _ => "bad-case"

end Driver
