import ApolloModel.Model.Proto
open Apollo Apollo.Proto
namespace Driver

/-- streams of property C14 are named `c14.<name>` -/
def c14 (_stream : String) (_fs : List String) : String := "unknown-stream"

end Driver
