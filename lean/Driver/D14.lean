import ApolloModel.Model.Proto
import ApolloModel.Model.SchemaValidation
import ApolloModel.Model.Implementation
import ApolloModel.Model.DirectiveApplications
import Driver.D14b
open Apollo Apollo.Proto Apollo.SchemaValidation Apollo.SchemaInvariants Apollo.Implementation
namespace Driver

/-- streams of property C14 are named `c14.<name>` (cases written by harness/src/p14.rs) -/

def natList (s : String) : List Nat := (s.splitOn ",").filterMap String.toNat?

def showNats (l : List Nat) : String := ",".intercalate (l.map toString)

/-- `N3` `n3` `L3` `l3` `S`, optionally followed by `d` -/
def decodeIField (s0 : String) : IField :=
  -- a trailing `d` marks a field that also has a default value: the search looks at the type only,
  -- so the model's field carries no such flag and the mark is dropped here
  let s := if s0.endsWith "d" then (s0.dropEnd 1).toString else s0
  match s.toList with
  | 'N' :: ds => { nonNullNamed := true, target := (String.ofList ds).toNat?.getD 1000000 }
  | 'S' :: _ => { nonNullNamed := true, target := 1000000 }
  | _ :: ds => { nonNullNamed := false, target := (String.ofList ds).toNat?.getD 1000000 }
  | [] => { nonNullNamed := false, target := 1000000 }

def decodeIGraph (s : String) : IGraph :=
  (s.splitOn "|").map fun node => ((node.splitOn ",").filter (· ≠ "")).map decodeIField

def decodeTypeInfo (s : String) : TypeInfo :=
  match s.splitOn ":" with
  | [k, imps] => { isInterface := k == "I", implements := natList imps }
  | _ => { isInterface := false, implements := [] }

def decodeRoot (s : String) : Option RootTarget :=
  match s.toList with
  | 'o' :: ds => some (.object ((String.ofList ds).toNat?.getD 0))
  | 'k' :: ds => some (.otherKind ((String.ofList ds).toNat?.getD 0))
  | 'u' :: ds => some (.undefined ((String.ofList ds).toNat?.getD 0))
  | _ => none

/-- `<dirs>:<ty>` with `ty` = `-` or an index -/
def decodeDArg (s : String) : DArg :=
  match s.splitOn ":" with
  | [ds, t] => { dirs := natList ds, ty := t.toNat? }
  | _ => { dirs := [], ty := none }

def decodeDArgs (s : String) : List DArg := ((s.splitOn ";").filter (· ≠ "")).map decodeDArg

/-- `<kind>/<dirs>/<value dirs ; separated>/<fields ; separated>` -/
def decodeDType (s : String) : DType :=
  match s.splitOn "/" with
  | [k, ds, vs, fs] =>
    { kind := if k == "e" then .enum else if k == "i" then .input else .scalar,
      dirs := natList ds,
      valueDirs := ((vs.splitOn ";").filter (· ≠ "")).map natList,
      fields := decodeDArgs fs }
  | _ => { kind := .scalar, dirs := [], valueDirs := [], fields := [] }

/-- `aname^printedType^r|o` -/
def decodeArg (s : String) : Arg :=
  match s.splitOn "^" with
  | [n, t, r] => { name := n, ty := t, required := r == "r" }
  | _ => { name := "", ty := "", required := false }

/-- `name~<Ty.decode format>~arg,arg` -/
def decodeFieldM (s : String) : Option FieldM :=
  match s.splitOn "~" with
  | [n, t, as] => (Ty.decode t).map fun ty => { name := n, ty := ty, args := ((as.splitOn ",").filter (· ≠ "")).map decodeArg }
  | _ => none

def decodeFields (s : String) : Option (List FieldM) :=
  ((s.splitOn "&").filter (· ≠ "")).mapM decodeFieldM

/-- `abstract>concrete,…` -/
def decodeSub (s : String) : Name → Name → Bool :=
  let pairs := (s.splitOn ",").filterMap fun p => match p.splitOn ">" with | [a, c] => some (a, c) | _ => none
  fun a c => pairs.contains (a, c)

def decodeKindEnv (s : String) : String → Option Kind :=
  let pairs := (s.splitOn ",").filterMap fun p =>
    match p.splitOn ":" with
    | [n, k] => some (n, match k with
        | "s" => Kind.scalar | "o" => Kind.object | "i" => Kind.interface | "u" => Kind.union | "e" => Kind.enum | _ => Kind.input)
    | _ => none
  fun n => (pairs.find? (·.1 == n)).map (·.2)

def strList (s : String) : List String := (s.splitOn ",").filter (· ≠ "")

/-- `r|n` `:` locs `:` `argname.r|o,…` -/
def decodeDirDef (s : String) : Standalone.DirDef :=
  match s.splitOn ":" with
  | [r, locs, args] =>
    { repeatable := r == "r",
      locs := (natList locs).map Standalone.Loc.typeSystem,
      args := (strList args).filterMap fun a => match a.splitOn "." with
        | [n, f] => n.toNat?.map fun k => ({ name := k, required := f == "r" } : Standalone.ArgDef)
        | _ => none }
  | _ => { repeatable := false, locs := [], args := [] }

/-- `dname:arg.v|n,…` -/
def decodeDirApp (s : String) : Standalone.Dir :=
  match s.splitOn ":" with
  | [n, args] =>
    { name := n.toNat?.getD 1000000,
      args := (strList args).filterMap fun a => match a.splitOn "." with
        | [k, v] => k.toNat?.map fun k => ({ name := k, value := if v == "n" then .null else .other [] } : Standalone.Arg)
        | _ => none }
  | _ => { name := 1000000, args := [] }

def verdictOf (l : List Nat) : String := if l.isEmpty then "ok" else "err:" ++ showNats l

def c14 (stream : String) (fs : List String) : String :=
  match stream, fs.map fun f => String.ofList (decodeField f) with
  | "c14.inputcycle", [limit, graph] =>
    verdictOf (failingInputs (decodeIGraph graph) (limit.toNat?.getD 0))
  | "c14.implements", [types] =>
    let s : ISchema := (types.splitOn "|").map decodeTypeInfo
    showNats ((List.range s.length).map fun i => implementsDiagCount s i (s.getD i default))
  | "c14.roots", [q, m, sub] =>
    let ds := validateRoots (decodeRoot q) (decodeRoot m) (decodeRoot sub)
    if ds.isEmpty then "ok" else s!"err:{ds.length}"
  | "c14.dircycle", [limit, dirs, types] =>
    let s : DSchema :=
      { dirs := if dirs == "" then [] else (dirs.splitOn "|").map decodeDArgs,
        types := if types == "" then [] else (types.splitOn "|").map decodeDType }
    verdictOf (failingDirectives s (limit.toNat?.getD 0))
  | "c14.implfields", [sub, tfields, ifaces] =>
    match decodeFields tfields, ((ifaces.splitOn "|").map decodeFields).mapM id with
    | some tf, some ifs =>
      toString (implDiags (decodeSub sub) (fun i => ifs[i]?) tf (List.range ifs.length)).length
    | _, _ => "bad-case"
  | "c14.dirapps", [defs, loc, apps] =>
    let ds := if defs == "" then [] else (defs.splitOn "|").map decodeDirDef
    let as := if apps == "" then [] else (apps.splitOn "|").map decodeDirApp
    Standalone.verdict (DirApps.schemaDirDiags (fun n => ds[n]?) (.typeSystem (loc.toNat?.getD 0)) as)
  | "c14.kinds", [env, fts, ats, ifts, ms] =>
    let k := decodeKindEnv env
    let c (t : TypeRefs) := toString (typeRefDiags k t).length
    c ⟨strList fts, strList ats, [], []⟩ ++ "," ++ c ⟨[], [], strList ifts, []⟩ ++ "," ++ c ⟨[], [], [], strList ms⟩
  | s, fs => D14b.c14b s fs

end Driver
