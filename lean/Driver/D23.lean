import ApolloModel.Model.Proto
import ApolloModel.Model.Coordinate
open Apollo Apollo.Proto Apollo.Coord
namespace Driver

def showCoord : Coord → String
  | .type t => s!"type:{String.ofList t}"
  | .typeAttribute t a => s!"attr:{String.ofList t}:{String.ofList a}"
  | .fieldArgument t f a => s!"fieldarg:{String.ofList t}:{String.ofList f}:{String.ofList a}"
  | .directive d => s!"dir:{String.ofList d}"
  | .directiveArgument d a => s!"dirarg:{String.ofList d}:{String.ofList a}"

def words (s : String) : List String := (s.splitOn " ").filter (· ≠ "")

/-- `name(a,b)` -/
def parseFieldDef (w : String) : FieldDef :=
  match w.splitOn "(" with
  | [n, rest] =>
    let inner := (rest.dropEnd 1).toString
    { name := n.toList, args := ((inner.splitOn ",").filter (· ≠ "")).map String.toList }
  | _ => { name := w.toList, args := [] }

def parseSchema (s : String) : Schema :=
  let entries := (s.splitOn ";").map words
  entries.foldl (fun acc e =>
    match e with
    | "s" :: n :: _ => { acc with types := acc.types ++ [(n.toList, .scalar)] }
    | "u" :: n :: _ => { acc with types := acc.types ++ [(n.toList, .union)] }
    | "e" :: n :: vs => { acc with types := acc.types ++ [(n.toList, .enum (vs.map String.toList))] }
    | "n" :: n :: fs => { acc with types := acc.types ++ [(n.toList, .inputObject (fs.map String.toList))] }
    | "o" :: n :: fs => { acc with types := acc.types ++ [(n.toList, .object (fs.map parseFieldDef))] }
    | "i" :: n :: fs => { acc with types := acc.types ++ [(n.toList, .interface (fs.map parseFieldDef))] }
    | "d" :: n :: args => { acc with directives := acc.directives ++ [(n.toList, args.map String.toList)] }
    | _ => acc) { types := [], directives := [] }

def c23 (stream : String) (fs : List String) : String :=
  match stream, fs with
  | "coord", [s] =>
    match parse (decodeField s) with
    | some c => showCoord c
    | none => "err"
  | "lookup", [schema, c] =>
    let s := parseSchema (String.ofList (decodeField schema))
    match parse (decodeField c) with
    | none => "bad-case"
    | some c =>
      match lookup s c with
      | .ok (.type _) => "ok:type"
      | .ok (.directive _) => "ok:directive"
      | .ok (.field _ _) => "ok:field"
      | .ok (.inputField _ _) => "ok:inputfield"
      | .ok (.enumValue _ _) => "ok:enumvalue"
      | .ok (.fieldArgument _ _ _) => "ok:argument"
      | .ok (.directiveArgument _ _) => "ok:argument"
      | .error _ => "err"
  | _, _ => "bad-case"

end Driver
