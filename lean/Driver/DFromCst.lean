import ApolloModel.Model.Proto
import ApolloModel.Model.ParserEntry
import ApolloModel.Model.FromCst
import ApolloModel.Model.AstDump
open Apollo Apollo.Proto
namespace Driver

def insertLoc (x : Nat × Nat) : List (Nat × Nat) → List (Nat × Nat)
  | [] => [x]
  | y :: ys => if x.1 < y.1 || (x.1 == y.1 && x.2 ≤ y.2) then x :: y :: ys else y :: insertLoc x ys

def sortLocs (l : List (Nat × Nat)) : List (Nat × Nat) := l.foldr insertLoc []

/-- stream `c08.fromcst`: source ↦ AST dump of `fromCst (parse .document src)` and the sorted (start+length)
    of every Name in it (cases written by harness/src/pfromcst.rs) -/
def cFromCst (stream : String) (fs : List String) : String :=
  match stream, fs with
  | "c08.fromcst", [src] =>
    match (Parse.parse .document none 500 (decodeField src)).outcome with
    | .tree root =>
      let (doc, locs) := FromCst.fromCst root
      Ast.dDocument doc ++ " | " ++ ",".intercalate ((sortLocs (locs.map fun l => (l.val.1, l.val.2.1))).map fun l => s!"{l.1}+{l.2}")
    | _ => "NOTREE"
  | _, _ => "bad-case"

end Driver
