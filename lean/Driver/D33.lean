import ApolloModel.Model.Proto
open Apollo Apollo.Proto
namespace Driver

/-- streams of property C33 are named `c33.<name>` -/
def c33 (_stream : String) (_fs : List String) : String := "unknown-stream"

end Driver
