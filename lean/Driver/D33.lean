import ApolloModel.Model.Proto
import ApolloModel.Model.SmithResponse
open Apollo Apollo.Proto Apollo.Smith
namespace Driver

/-- streams of property C33 are named `c33.<name>` -/
def takeUntil (stop : Char → Bool) (cs : List Char) : String × List Char :=
  (String.ofList (cs.takeWhile (fun c => !stop c)), cs.dropWhile (fun c => !stop c))

mutual
/-- `{Ty|sel…}` written by harness/src/p33.rs `enc_selset` -/
def decSelSet : Nat → List Char → Option (Name × Sels × List Char)
  | 0, _ => none
  | f + 1, cs =>
    match cs with
    | '{' :: r =>
      let (ty, r1) := takeUntil (· == '|') r
      match decSels f (r1.drop 1) with
      | some (ss, r2) => some (ty, ss, r2)
      | none => none
    | _ => none
def decSels : Nat → List Char → Option (Sels × List Char)
  | 0, _ => none
  | f + 1, cs =>
    match cs with
    | '}' :: r => some (.nil, r)
    | 'F' :: r =>
      let (alias, r1) := takeUntil (· == ',') r
      let (name, r2) := takeUntil (· == ',') (r1.drop 1)
      match Ty.decodeAux (r2.length + 1) (r2.drop 1) with
      | some (ty, r3) =>
        match r3 with
        | '.' :: r4 =>
          match decSels f r4 with
          | some (tl, r5) =>
            some (.cons (.field (if alias == "-" then none else some alias) name ty ty.innerNamedType .nil) tl, r5)
          | none => none
        | _ =>
          match decSelSet f r3 with
          | some (subTy, sub, r4) =>
            match decSels f r4 with
            | some (tl, r5) => some (.cons (.field (if alias == "-" then none else some alias) name ty subTy sub) tl, r5)
            | none => none
          | none => none
      | none => none
    | 'S' :: r =>
      let (name, r1) := takeUntil (· == ';') r
      match decSels f (r1.drop 1) with
      | some (tl, r2) => some (.cons (.spread name) tl, r2)
      | none => none
    | 'I' :: r =>
      let (tc, r1) := takeUntil (· == '{') r
      match decSelSet f r1 with
      | some (_, sub, r2) =>
        match decSels f r2 with
        | some (tl, r3) => some (.cons (.inline (if tc == "-" then none else some tc) sub) tl, r3)
        | none => none
      | none => none
    | _ => none
end

def decSchema (s : String) : Schema :=
  ((s.splitOn ";").filter (· ≠ "")).filterMap fun entry =>
    match entry.splitOn ":" with
    | ["S", n] => some (n, TypeDef.scalar)
    | ["E", n, vs] => some (n, .enum ((vs.splitOn ",").filter (· ≠ "")))
    | ["O", n, is] => some (n, .object ((is.splitOn ",").filter (· ≠ "")))
    | ["I", n] => some (n, .interface)
    | ["U", n, ms] => some (n, .union ((ms.splitOn ",").filter (· ≠ "")))
    | ["X", n] => some (n, .input)
    | _ => none

def decFrags (s : String) : Option Fragments :=
  ((s.splitOn "^").filter (· ≠ "")).mapM fun entry =>
    match entry.splitOn "~" with
    | [name, cond, body] =>
      match decSelSet (body.length + 2) body.toList with
      | some (_, sels, []) => some (name, cond, sels)
      | _ => none
    | _ => none

def decCfg (s : String) : Option Cfg :=
  match s.splitOn "," with
  | [a, b, c] =>
    match a.toNat?, b.toNat? with
    | some mn, some mx =>
      if c == "-" then some { minList := mn, maxList := mx, nullRatio := none }
      else
        match c.splitOn "/" with
        | [n, d] =>
          match n.toNat?, d.toNat? with
          | some n, some d => some { minList := mn, maxList := mx, nullRatio := some (n, d) }
          | _, _ => none
        | _ => none
    | _, _ => none
  | _ => none

def c33 (stream : String) (fs : List String) : String :=
  match stream, fs with
  | "c33.build", [schema, op, frags, cfg, script] =>
    let schema := decSchema (String.ofList (decodeField schema))
    let op := decodeField op
    let script := ((String.ofList (decodeField script)).splitOn ",").filterMap String.toNat?
    match decSelSet (op.length + 2) op, decFrags (String.ofList (decodeField frags)), decCfg (String.ofList (decodeField cfg)) with
    | some (rootTy, sels, []), some frags, some cfg =>
      match buildData schema frags cfg 1000000 rootTy sels script with
      | .ok j _ => j.render
      | .exhausted => "ERR exhausted"
      | .emptyChoose => "ERR empty-choose"
      | .panic p => "PANIC " ++ p
      | .outOfFuel => "OUT-OF-FUEL"
    | _, _, _ => "bad-case"
  | _, _ => "bad-case"

end Driver
