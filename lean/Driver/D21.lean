import ApolloModel.Model.Proto
import ApolloModel.Model.Guards
import ApolloModel.Model.GuardsSchema
import Driver.D14
open Apollo Apollo.Proto Apollo.Guards Apollo.SchemaValidation Apollo.GuardsSchema
namespace Driver

/-- `(` child `)` sibling … ; anything else ends the tree -/
def parseTree : Nat → List Char → Tree × List Char
  | 0, cs => (.leaf, cs)
  | fuel + 1, '(' :: cs =>
    let (child, r1) := parseTree fuel cs
    match r1 with
    | ')' :: r2 =>
      let (sib, r3) := parseTree fuel r2
      (.node child sib, r3)
    | _ => (.node child .leaf, r1)
  | _ + 1, cs => (.leaf, cs)

def parseKey (s : String) : Key :=
  match s.splitOn "." with
  | [f, o] => some (f.toNat?.getD 0, o.toNat?.getD 0)
  | _ => none

/-- selection list: `12.` is a spread of fragment 12, `( … )` a nested selection set -/
def parseSels : Nat → List Char → List Sel × List Char
  | 0, cs => ([], cs)
  | fuel + 1, cs =>
    match cs with
    | '(' :: r =>
      let (inner, r1) := parseSels fuel r
      let r2 := match r1 with | ')' :: t => t | t => t
      let (rest, r3) := parseSels fuel r2
      (.nested inner :: rest, r3)
    | c :: _ =>
      if c.isDigit then
        let ds := cs.takeWhile Char.isDigit
        let r := (cs.dropWhile Char.isDigit).drop 1
        let (rest, r3) := parseSels fuel r
        (.spread ((String.ofList ds).toNat?.getD 0) :: rest, r3)
      else ([], cs)
    | [] => ([], [])

def parseDoc (s : String) : Doc :=
  ((s.splitOn ";").filter (· ≠ "")).filterMap fun e =>
    match e.splitOn ":" with
    | [n, body] => some (n.toNat?.getD 0, (parseSels (body.length + 1) body.toList).1)
    | _ => none

def outcomeStr : Outcome → String
  | .ok => "o" | .recursed => "r" | .limit => "l"

def rStr : R → String
  | .ok => "o" | .recursed => "r" | .limit => "l" | .outOfFuel => "F"

/-- the first character of a graph field is a marker (fields may not be empty) -/
def unmark (s : String) : String := (s.drop 1).toString

def c21 (stream : String) (fs : List String) : String :=
  match stream, fs with
  | "guard", [limit, start, tree] =>
    let t := (parseTree (tree.length + 1) tree.toList).1
    let lim := limit.toNat?.getD 0
    let (c, err) := walk { value := start.toNat?.getD 0, high := start.toNat?.getD 0, limit := lim } t
    s!"{c.value},{c.high},{boolStr err}"
  | "sort", [keys] =>
    let ks := ((keys.splitOn ";").filter (· ≠ "")).map parseKey
    let idx := List.range ks.length
    ",".intercalate ((sortDiagnostics (ks.zip idx)).map (fun p => toString p.2))
  | "fragcycle", [limit, dlimit, doc] =>
    match limit.toNat?, dlimit.toNat? with
    | some l, some dl =>
      let d := parseDoc doc
      "".intercalate (d.map fun (n, body) => outcomeStr (fragmentCycle d l dl n body).1)
    | _, _ => "bad-case"
  | "inputguard", [limit, graph] =>
    -- per input object: the answer of the instrumented search; then the largest stack / depth ghosts
    let g := decodeIGraph (unmark graph)
    let l := limit.toNat?.getD 0
    let rs := (List.range g.length).map fun r => checkInputG g l r
    let ok := rs.all fun r => r.2.high ≤ l + 1 && r.2.dhigh ≤ l + 1 && ((r.1 == .limit) == decide (l < r.2.high))
    "".intercalate (rs.map fun r => rStr r.1) ++ (if ok then "" else "!ghost")
  | "dirguard", [limit, dirs, types] =>
    let ds := unmark dirs
    let ts := unmark types
    let s : DSchema :=
      { dirs := (ds.splitOn "|").map decodeDArgs,      -- at least one directive; "" = one directive without arguments
        types := if ts == "" then [] else (ts.splitOn "|").map decodeDType }
    let l := limit.toNat?.getD 0
    let rs := (List.range s.dirs.length).map fun d => checkDirectiveG s l d
    let ok := rs.all fun r => r.2.highD ≤ l + 1 && r.2.highT ≤ l + 1 && r.2.dhigh ≤ 4 * l + 5 &&
      ((r.1 == .limit) == (decide (l < r.2.highD) || decide (l < r.2.highT)))
    "".intercalate (rs.map fun r => rStr r.1) ++ (if ok then "" else "!ghost")
  | _, _ => "bad-case"

end Driver
