import ApolloModel.Model.Proto
import ApolloModel.Model.Strings
open Apollo Apollo.Proto Apollo.Strs
namespace Driver

def cStr (stream : String) (fs : List String) : String :=
  match stream, fs with
  | "strdecode", [lit] =>
    match decodeStringToken (decodeField lit) with
    | some s => encodeField s
    | none => "PANIC"
  | "strser", [pre, level, isDesc, s] =>
    let pre : Option Str := if pre == "-" then none else some (decodeField pre)
    match level.toNat? with
    | some l => encodeField (serializeStringValue pre l (parseBool isDesc) (decodeField s))
    | none => "bad-case"
  | _, _ => "bad-case"

end Driver
