import ApolloModel.Model.Proto
import ApolloModel.Model.LineColumn
import ApolloModel.Model.ParserEntry
import ApolloModel.Model.TreeRanges
open Apollo Apollo.Proto Apollo.LC
namespace Driver

/-- `c11.ranges`: rowan text ranges of the parsed document: every element `kind:start:len` (parents
    first), then every NAME node `start:len:ok` (ok = the range slices the source to the node's
    text), then whether every NAME node is one IDENT token, and whether the tree text is the source -/
def showRanges (src : Parse.Str) : String :=
  let r := Parse.parse .document none 500 src
  match r.outcome with
  | .tree root =>
    let all := (Rowan.rangesOf root 0).map fun (k, s, l, _) => s!"{k}:{s}:{l}"
    let names := (Rowan.nameRanges root 0).map fun (s, l, t) =>
      s!"{s}:{l}:{if Rowan.sliceBytes src s l == some t then "ok" else "off"}"
    " ".intercalate all ++ " | " ++ " ".intercalate names ++ " | " ++
      (if Rowan.namesAreIdents root then "names=ident" else "names=other") ++ " " ++
      (if root.text == src then "lossless" else "lossy")
  | _ => "PANIC"

def cLc (stream : String) (fs : List String) : String :=
  match stream, fs with
  | "linecol", [src, off] =>
    match off.toNat? with
    | some o => match getLineColumn (decodeField src) o with
      | some (l, c) => s!"{l},{c}"
      | none => "none"
    | none => "bad-case"
  | "c11.ranges", [src] => showRanges (decodeField src)
  | _, _ => "bad-case"

end Driver
