import ApolloModel.Model.Proto
import ApolloModel.Model.LineColumn
open Apollo Apollo.Proto Apollo.LC
namespace Driver

def cLc (stream : String) (fs : List String) : String :=
  match stream, fs with
  | "linecol", [src, off] =>
    match off.toNat? with
    | some o => match getLineColumn (decodeField src) o with
      | some (l, c) => s!"{l},{c}"
      | none => "none"
    | none => "bad-case"
  | _, _ => "bad-case"

end Driver
