import ApolloModel.Properties.C29
